(* C10: the B-tree zone's WritableVersion (flags, delegation index, update_glue_flag re-creating the nodes
   beneath a cut) leaves the CONTENT alone: as a store it refines the base WritableVersion model - same result
   for every call of every history, same content under every key.  Hence "identically for plain, versioned and
   B-tree zones" holds for this model of the overrides too. *)
From DV Require Import Base.Prelude Model.NameM Model.TxnM.
From DV Require Import Proofs.NameValid Proofs.NameOrder Proofs.TxnName Proofs.TxnStore Proofs.TxnLow Proofs.TxnSim
                       Proofs.TxnThm Proofs.TxnAbs.
Open Scope Z_scope.

(* ---------------------------------------------------------------- the ordered node map *)
Definition bcontent (m : bmap) (k : name) : option node :=
  match bmap_get m k with Some bn => Some (bn_rds bn) | None => None end.

Lemma bmap_get_congr m k k' : name_eqb k k' = true -> bmap_get m k = bmap_get m k'.
Proof.
  intros H. induction m as [|[k0 v] m IH]; [reflexivity|]. cbn [bmap_get].
  rewrite (name_eqb_trans_r k0 k k' H). rewrite IH. reflexivity.
Qed.

Lemma bmap_get_set m k0 v k :
  bmap_get (bmap_set m k0 v) k = if name_eqb k0 k then Some v else bmap_get m k.
Proof.
  induction m as [|[k' v'] m IH]; cbn [bmap_set bmap_get]; [reflexivity|].
  destruct (name_eqb k' k0) eqn:E0; cbn [bmap_get].
  - rewrite (name_eqb_trans_l k' k0 k E0). destruct (name_eqb k0 k); reflexivity.
  - destruct (order k0 k' <? 0); cbn [bmap_get]; [reflexivity|].
    rewrite IH. destruct (name_eqb k' k) eqn:E1; [|reflexivity].
    destruct (name_eqb k0 k) eqn:E2; [|reflexivity].
    exfalso. rewrite (name_eqb_sym k0 k) in E2. rewrite (name_eqb_trans_r k' k k0 E2) in E1. congruence.
Qed.

Lemma bmap_get_remove m k0 k :
  bmap_get (bmap_remove m k0) k = if name_eqb k0 k then None else bmap_get m k.
Proof.
  induction m as [|[k' v'] m IH]; cbn [bmap_remove bmap_get].
  - destruct (name_eqb k0 k); reflexivity.
  - destruct (name_eqb k' k0) eqn:E0; cbn [bmap_get].
    + rewrite IH. rewrite (name_eqb_trans_l k' k0 k E0). destruct (name_eqb k0 k); reflexivity.
    + rewrite IH. destruct (name_eqb k' k) eqn:E1; [|reflexivity].
      destruct (name_eqb k0 k) eqn:E2; [|reflexivity].
      exfalso. rewrite (name_eqb_sym k0 k) in E2. rewrite (name_eqb_trans_r k' k k0 E2) in E1. congruence.
Qed.

(* strictly increasing keys (canonical order): the BTreeDict invariant *)
Fixpoint bsorted (m : bmap) : Prop :=
  match m with
  | [] => True
  | (k, _) :: r => (forall x, In x (map fst r) -> order k x < 0) /\ bsorted r
  end.

Lemma order_lt_not_eq a b : order a b < 0 -> name_eqb b a = false.
Proof.
  intros H. unfold name_eqb. pose proof (order_antisym a b) as A.
  assert ((order a b ?= 0) = Lt) as L by (apply Z.compare_lt_iff; exact H). rewrite L in A. cbn in A.
  apply Z.compare_gt_iff in A. apply Z.eqb_neq. lia.
Qed.

Lemma order_flip a b : ~ order a b < 0 -> name_eqb b a = false -> order b a < 0.
Proof.
  intros H1 H2. destruct (order_total b a) as [H|[H|H]]; [exact H| |contradiction].
  apply name_eqb_iff_ci in H. congruence.
Qed.

Lemma bsorted_in_get m k v : bsorted m -> In (k, v) m -> bmap_get m k = Some v.
Proof.
  induction m as [|[k' v'] m IH]; intros S Hin; [destruct Hin|]. cbn [bmap_get]. destruct S as [S1 S2].
  destruct Hin as [H|H].
  - inversion H; subst. rewrite name_eqb_refl. reflexivity.
  - assert (name_eqb k' k = false) as E.
    { rewrite name_eqb_sym. apply order_lt_not_eq. apply S1. apply in_map_iff. exists (k, v). auto. }
    rewrite E. apply IH; auto.
Qed.

Lemma bmap_set_keys m k v x : In x (map fst (bmap_set m k v)) -> x = k \/ In x (map fst m).
Proof.
  induction m as [|[k' v'] m IH]; cbn [bmap_set map fst].
  - intros [H|[]]; auto.
  - destruct (name_eqb k' k); cbn [map fst In].
    + intros [H|H]; auto.
    + destruct (order k k' <? 0); cbn [map fst In].
      * intros [H|[H|H]]; auto.
      * intros [H|H]; auto. destruct (IH H); auto.
Qed.

Lemma bsorted_set m k v : bsorted m -> bsorted (bmap_set m k v).
Proof.
  induction m as [|[k' v'] m IH]; intros S; cbn [bmap_set]; [cbn; split; [intros x []|exact Logic.I]|].
  destruct S as [S1 S2].
  destruct (name_eqb k' k) eqn:E; [split; assumption|].
  destruct (order k k' <? 0) eqn:L.
  - apply Z.ltb_lt in L. split; [|split; assumption].
    intros x [<-|Hx]; [exact L|]. eapply order_trans_lt; [exact L|]. apply S1. exact Hx.
  - apply Z.ltb_ge in L. split; [|apply IH; exact S2].
    intros x Hx. apply bmap_set_keys in Hx. destruct Hx as [->|Hx]; [|apply S1; exact Hx].
    apply order_flip; [lia|exact E].
Qed.

Lemma bmap_remove_keys m k x : In x (map fst (bmap_remove m k)) -> In x (map fst m).
Proof.
  induction m as [|[k' v'] m IH]; cbn [bmap_remove map fst]; [auto|].
  destruct (name_eqb k' k); cbn [map fst In]; [intros H; right; auto|]. intros [H|H]; auto.
Qed.

Lemma bsorted_remove m k : bsorted m -> bsorted (bmap_remove m k).
Proof.
  induction m as [|[k' v'] m IH]; intros S; cbn [bmap_remove]; [exact Logic.I|]. destruct S as [S1 S2].
  destruct (name_eqb k' k); [auto|]. split; [|auto]. intros x Hx. apply S1. eapply bmap_remove_keys; eauto.
Qed.

Lemma drop_upto_incl n m x : In x (drop_upto n m) -> In x m.
Proof.
  induction m as [|[k v] m IH]; cbn [drop_upto]; [auto|]. destruct (order k n <=? 0); [intros H; right; auto|auto].
Qed.

(* ---------------------------------------------------------------- update_glue_flag does not touch content *)
Lemma snoc_ok {A} (Q : A -> Prop) l x : (forall e, In e l -> Q e) -> Q x -> forall e, In e (l ++ [x]) -> Q e.
Proof. intros H Hx e He. apply in_app_or in He. destruct He as [He|[<-|[]]]; auto. Qed.

Lemma ugf_updates nodes n g : forall after exposed deleg changed updates d' c' u',
  bsorted nodes ->
  (forall e, In e after -> In e nodes) ->
  (forall e, In e updates -> bcontent nodes (fst e) = Some (bn_rds (snd e))) ->
  ugf_loop n g after exposed deleg changed updates = (d', c', u') ->
  (forall e, In e u' -> bcontent nodes (fst e) = Some (bn_rds (snd e))) /\ (changed <> [] -> c' <> []).
Proof.
  induction after as [|[ename bn] r IH]; intros exposed deleg changed updates d' c' u' S Ha Hu; cbn [ugf_loop].
  - intros H; inversion H; subst. auto.
  - destruct (negb (is_subdomain ename n)); [intros H; inversion H; subst; auto|].
    assert (bcontent nodes ename = Some (bn_rds bn)) as Hc.
    { unfold bcontent. rewrite (bsorted_in_get nodes ename bn S (Ha _ (or_introl eq_refl))). reflexivity. }
    assert (forall e, In e r -> In e nodes) as Ha' by (intros e He; apply Ha; right; exact He).
    assert (forall fl e, In e (updates ++ [(ename, mkBn fl (bn_rds bn))]) -> bcontent nodes (fst e) = Some (bn_rds (snd e))) as Hu'
      by (intros fl; apply snoc_ok; [exact Hu|exact Hc]).
    assert (forall l : list name, l <> [] -> changed_add l ename <> []) as Hne.
    { intros l Hl. unfold changed_add. destruct (changed_has l ename); [exact Hl|]. destruct l; discriminate. }
    destruct (changed_has changed ename) eqn:Ch; cbn [bn_rds].
    + destruct g; [|destruct (match exposed with Some x => is_subdomain ename x | None => false end);
                     [|destruct (node_find (bn_rds bn) cIN tNS 0)]];
        intros H; apply (IH _ _ _ _ _ _ _ S Ha' (Hu' _)) in H; exact H.
    + destruct g; [|destruct (match exposed with Some x => is_subdomain ename x | None => false end);
                     [|destruct (node_find (bn_rds bn) cIN tNS 0)]];
        intros H; apply (IH _ _ _ _ _ _ _ S Ha' (Hu' _)) in H; destruct H as [H1 H2];
        (split; [exact H1|intros Hx; apply H2, Hne, Hx]).
Qed.

Lemma fold_set_content updates : forall m k,
  (forall e, In e updates -> bcontent m (fst e) = Some (bn_rds (snd e))) ->
  bcontent (fold_left (fun m0 kn => bmap_set m0 (fst kn) (snd kn)) updates m) k = bcontent m k.
Proof.
  induction updates as [|[e bn] r IH]; intros m k H; cbn [fold_left]; [reflexivity|].
  assert (forall k', bcontent (bmap_set m e bn) k' = bcontent m k') as K.
  { intros k'. unfold bcontent. rewrite bmap_get_set. destruct (name_eqb e k') eqn:E; [|reflexivity].
    pose proof (H (e, bn) (or_introl eq_refl)) as He. cbn [fst snd] in He. unfold bcontent in He.
    rewrite <- (bmap_get_congr m e k' E). destruct (bmap_get m e); inversion He; reflexivity. }
  rewrite IH; [apply K|]. intros x Hx. rewrite K. apply H. right. exact Hx.
Qed.

Lemma fold_set_sorted updates : forall m, bsorted m ->
  bsorted (fold_left (fun m0 kn => bmap_set m0 (fst kn) (snd kn)) updates m).
Proof. induction updates as [|e r IH]; intros m S; cbn [fold_left]; [exact S|]. apply IH. apply bsorted_set. exact S. Qed.

Lemma update_glue_content v n g :
  bsorted (bv_nodes v) ->
  let v' := b_update_glue v n g in
  (forall k, bcontent (bv_nodes v') k = bcontent (bv_nodes v) k) /\ bsorted (bv_nodes v') /\
  (bv_changed v <> [] -> bv_changed v' <> []).
Proof.
  intros S. unfold b_update_glue.
  destruct (ugf_loop n g (drop_upto n (bv_nodes v)) None (bv_deleg v) (bv_changed v) []) as [[d' c'] u'] eqn:E.
  destruct (ugf_updates (bv_nodes v) n g _ _ _ _ _ d' c' u' S (fun e => drop_upto_incl n (bv_nodes v) e) (fun e (H : In e []) => match H with end) E) as [H1 H2].
  cbn [bv_nodes bv_changed]. split; [intros k; apply fold_set_content; exact H1|]. split; [apply fold_set_sorted; exact S|exact H2].
Qed.

(* ---------------------------------------------------------------- the store refines the base version model *)
Definition RB (bv : bver) (zv : version) : Prop :=
  bsorted (bv_nodes bv) /\ (forall k, bcontent (bv_nodes bv) k = map_get (v_nodes zv) k) /\
  (bv_changed bv = [] <-> v_changed zv = []).

Definition RPb (bz : bzone) (z : nmap) : Prop := bsorted (fst bz) /\ forall k, bcontent (fst bz) k = map_get z k.

Section BtreeRefines.
  Variable c : cfg.

  Lemma b_node_sim bv zv n : RB bv zv -> b_get_node c bv n = get_node c zv n.
  Proof.
    intros (_ & H & _). unfold b_get_node, get_node. destruct (validate_name c n); cbn [bind]; try reflexivity.
    f_equal. apply H.
  Qed.

  Lemma b_get_sim bv zv n ty cov : RB bv zv -> b_get_rdataset c bv n ty cov = get_rdataset c zv n ty cov.
  Proof. intros H. unfold b_get_rdataset, get_rdataset. rewrite (b_node_sim bv zv n H). reflexivity. Qed.

  Lemma changed_add_ne (l : list name) k : changed_add l k <> [].
  Proof. unfold changed_add. destruct (changed_has l k) eqn:E; [intros H; rewrite H in E; discriminate|destruct l; discriminate]. Qed.

  (* copy-on-write: afterwards the node at k is there, with the content it had (or none) *)
  Lemma b_cow_spec bv n k :
    validate_name c n = Ok k -> bsorted (bv_nodes bv) ->
    exists v1 nd, b_maybe_cow c bv n = Ok (v1, nd, k) /\
      bn_rds nd = match bcontent (bv_nodes bv) k with Some x => x | None => [] end /\
      (forall k', bcontent (bv_nodes v1) k' = if name_eqb k k' then Some (bn_rds nd) else bcontent (bv_nodes bv) k') /\
      bsorted (bv_nodes v1) /\ bv_changed v1 <> [] /\ bv_deleg v1 = bv_deleg bv.
  Proof.
    intros Ev S. unfold b_maybe_cow. rewrite Ev. cbn [bind]. unfold bcontent.
    destruct (bmap_get (bv_nodes bv) k) as [bn|] eqn:G.
    - destruct (changed_has (bv_changed bv) k) eqn:Ch.
      + eexists _, _. split; [reflexivity|]. cbn [bn_rds bv_nodes bv_changed bv_deleg]. split; [reflexivity|].
        split; [|split; [apply bsorted_set; exact S|split; [intros H; rewrite H in Ch; discriminate|reflexivity]]].
        intros k'. rewrite bmap_get_set. destruct (name_eqb k k'); reflexivity.
      + eexists _, _. split; [reflexivity|]. cbn [bn_rds bv_nodes bv_changed bv_deleg]. split; [reflexivity|].
        split; [|split; [apply bsorted_set, bsorted_set; exact S|split; [apply changed_add_ne|reflexivity]]].
        intros k'. rewrite !bmap_get_set. destruct (name_eqb k k'); reflexivity.
    - eexists _, _. split; [reflexivity|]. cbn [bn_rds bv_nodes bv_changed bv_deleg]. split; [reflexivity|].
      split; [|split; [apply bsorted_set, bsorted_set; exact S|split; [apply changed_add_ne|reflexivity]]].
      intros k'. rewrite !bmap_get_set. destruct (name_eqb k k'); reflexivity.
  Qed.

  Lemma RB_content_node bv zv k : RB bv zv ->
    match bcontent (bv_nodes bv) k with Some x => x | None => [] end = match map_get (v_nodes zv) k with Some x => x | None => [] end.
  Proof. intros (_ & H & _). rewrite H. reflexivity. Qed.

  Lemma b_put_sim bv zv n r : RB bv zv -> res_rel RB (b_put_rdataset c bv n r) (put_rdataset c zv n r).
  Proof.
    intros HR. pose proof HR as (S & Hc & Hch). unfold b_put_rdataset, put_rdataset.
    destruct (validate_name c n) as [k| |] eqn:Ev.
    2,3: unfold b_maybe_cow, maybe_cow; rewrite Ev; reflexivity.
    destruct (b_cow_spec bv n k Ev S) as (v1 & nd & -> & Hnd & Hget & S1 & Hne & Hd).
    destruct (cow_spec c zv n k Ev) as (z1 & znd & -> & Hznd & Hzget & Hzne). cbn [bind].
    rewrite (RB_content_node bv zv k HR) in Hnd. rewrite <- Hznd in Hnd.
    (* the optional delegation bookkeeping *)
    match goal with |- context [let '(_, _) := ?X in _] => remember X as p eqn:Eg; destruct p as [v2 fl] end.
    assert ((forall k', bcontent (bv_nodes v2) k' = bcontent (bv_nodes v1) k') /\ bsorted (bv_nodes v2) /\ bv_changed v2 <> []) as (C2 & S2 & N2).
    { destruct ((r_ty r =? tNS) && _); [|inversion Eg; subst; auto].
      destruct (deleg_has (bv_deleg v1) k); [inversion Eg; subst; auto|]. inversion Eg; subst.
      destruct (update_glue_content (mkBver (bv_nodes v1) (deleg_add (bv_deleg v1) k) (bv_changed v1)) k true S1) as (A & B & C).
      split; [exact A|split; [exact B|apply C; exact Hne]]. }
    assert (forall f, forall k', bcontent (bmap_set (bv_nodes v2) k (mkBn f (node_replace (bn_rds nd) r))) k' =
                                map_get (map_set (v_nodes z1) k (node_replace znd r)) k') as CS.
    { intros f k'. unfold bcontent. rewrite bmap_get_set, map_get_set, Hzget.
      destruct (name_eqb k k') eqn:E; [cbn [bn_rds]; rewrite Hnd; reflexivity|].
      fold (bcontent (bv_nodes v2) k'). rewrite C2, Hget, E. apply Hc. }
    destruct (negb _ && _).
    - (* a CNAME evicted the NS rdataset: the delegation is dropped, content untouched *)
      match goal with |- context [b_update_glue ?V k false] =>
        destruct (update_glue_content V k false) as (A & B & C0); [cbn [bv_nodes]; apply bsorted_set; exact S2|] end.
      cbn [res_rel]. split; [exact B|]. split.
      + intros k'. rewrite A. cbn [bv_nodes v_nodes]. apply CS.
      + split; intros H; [|exfalso; apply Hzne; exact H]. exfalso. revert H. apply C0. exact N2.
    - cbn [res_rel]. split; [apply bsorted_set; exact S2|]. split.
      + intros k'. cbn [bv_nodes v_nodes]. apply CS.
      + cbn [bv_changed v_changed]. split; intros H; [contradiction|]. exfalso. apply Hzne. exact H.
  Qed.

  Lemma b_del_rds_sim bv zv n ty cov : RB bv zv -> res_rel RB (b_delete_rdataset c bv n ty cov) (delete_rdataset c zv n ty cov).
  Proof.
    intros HR. pose proof HR as (S & Hc & Hch). unfold b_delete_rdataset, delete_rdataset.
    destruct (validate_name c n) as [k| |] eqn:Ev.
    2,3: unfold b_maybe_cow, maybe_cow; rewrite Ev; reflexivity.
    destruct (b_cow_spec bv n k Ev S) as (v1 & nd & -> & Hnd & Hget & S1 & Hne & Hd).
    destruct (cow_spec c zv n k Ev) as (z1 & znd & -> & Hznd & Hzget & Hzne). cbn [bind].
    rewrite (RB_content_node bv zv k HR) in Hnd. rewrite <- Hznd in Hnd.
    match goal with |- context [let '(_, _) := ?X in _] => remember X as p eqn:Eg; destruct p as [v2 fl] end.
    assert ((forall k', bcontent (bv_nodes v2) k' = bcontent (bv_nodes v1) k') /\ bsorted (bv_nodes v2) /\ bv_changed v2 <> []) as (C2 & S2 & N2).
    { destruct ((ty =? tNS) && _); [|inversion Eg; subst; auto]. inversion Eg; subst.
      destruct (update_glue_content (mkBver (bv_nodes v1) (deleg_discard (bv_deleg v1) k) (bv_changed v1)) k false S1) as (A & B & C).
      split; [exact A|split; [exact B|apply C; exact Hne]]. }
    rewrite Hnd.
    destruct (node_delete znd cIN ty cov) as [|x rds'] eqn:D.
    - (* the emptied node is dropped on both sides *)
      unfold bmap_del, map_del, map_has. rewrite Hzget, name_eqb_refl.
      assert (bcontent (bv_nodes v2) k = Some (bn_rds nd)) as Gk by (rewrite C2, Hget, name_eqb_refl; reflexivity).
      unfold bcontent in Gk. destruct (bmap_get (bv_nodes v2) k); [|discriminate]. cbn [bind res_rel].
      split; [apply bsorted_remove; exact S2|]. split.
      + intros k'. cbn [bv_nodes v_nodes]. unfold bcontent. rewrite bmap_get_remove, map_get_remove, Hzget.
        destruct (name_eqb k k') eqn:E; [reflexivity|]. fold (bcontent (bv_nodes v2) k'). rewrite C2, Hget, E. apply Hc.
      + cbn [bv_changed v_changed]. split; intros H; [contradiction|]. exfalso. apply Hzne. exact H.
    - cbn [res_rel]. split; [apply bsorted_set; exact S2|]. split.
      + intros k'. cbn [bv_nodes v_nodes]. unfold bcontent. rewrite bmap_get_set, map_get_set, Hzget.
        destruct (name_eqb k k') eqn:E; [reflexivity|]. fold (bcontent (bv_nodes v2) k'). rewrite C2, Hget, E. apply Hc.
      + cbn [bv_changed v_changed]. split; intros H; [contradiction|]. exfalso. apply Hzne. exact H.
  Qed.

  Lemma b_del_name_sim bv zv n : RB bv zv -> res_rel RB (b_delete_node c bv n) (delete_node c zv n).
  Proof.
    intros HR. pose proof HR as (S & Hc & Hch). unfold b_delete_node, delete_node.
    destruct (validate_name c n) as [k| |]; cbn [bind res_rel]; auto.
    unfold map_has. rewrite <- Hc. unfold bcontent.
    destruct (bmap_get (bv_nodes bv) k) as [bn|] eqn:G; cbn [res_rel]; [|exact HR].
    match goal with |- context [bmap_remove (bv_nodes ?X) k] => remember X as v2 eqn:Eg end.
    assert ((forall k', bcontent (bv_nodes v2) k' = bcontent (bv_nodes bv) k') /\ bsorted (bv_nodes v2)) as (C2 & S2).
    { destruct (_ =? 0); [subst; auto|]. subst.
      destruct (update_glue_content (mkBver (bv_nodes bv) (deleg_discard (bv_deleg bv) k) (bv_changed bv)) k false S) as (A & B & _). auto. }
    split; [apply bsorted_remove; exact S2|]. split.
    - intros k'. cbn [bv_nodes v_nodes]. unfold bcontent. rewrite bmap_get_remove, map_get_remove.
      destruct (name_eqb k k'); [reflexivity|]. fold (bcontent (bv_nodes v2) k'). rewrite C2. apply Hc.
    - cbn [bv_changed v_changed]. split; intros H; exfalso; [eapply changed_add_ne; eauto|].
      unfold TxnM.changed_add in H. destruct (changed_has (v_changed zv) k) eqn:E; [rewrite H in E; discriminate|].
      destruct (v_changed zv); discriminate.
  Qed.

  (* Every history on a B-tree zone: the overrides give the same result for every call as the base
     WritableVersion, and the same content under every key after every transaction. *)
  Theorem btree_refines_value h bz z :
    Forall spec_valid h -> RPb bz z ->
    Forall2 (ROut RPb) (btree_hist c h bz) (impl_hist c h z).
  Proof.
    intros F HP. unfold btree_hist, impl_hist.
    apply (sim_run_hist (bstore c) (zstore c) c c EV RB RPb false); auto using hist_valid_rel.
    - split; [reflexivity|apply Valid_nil].
    - intros n1 n2 [-> _]. reflexivity.
    - intros z1 z2 b [H1 H2]. cbn [s_begin bstore zstore]. destruct b.
      + split; [exact Logic.I|split; [reflexivity|split; reflexivity]].
      + split; [exact H1|split; [exact H2|split; reflexivity]].
    - intros s1 s2 (H1 & H2 & _). split; assumption.
    - intros s1 s2 n1 n2 ty cov HR [-> _]. apply b_get_sim; auto.
    - intros s2 n ty cov r. apply get_cls.
    - intros s1 s2 n1 n2 r HR [-> _] _. apply b_put_sim; auto.
    - intros s1 s2 n1 n2 HR [-> _]. apply b_del_name_sim; auto.
    - intros s1 s2 n1 n2 ty cov HR [-> _]. apply b_del_rds_sim; auto.
    - intros s1 s2 n1 n2 HR [-> _]. cbn [s_exists bstore zstore]. rewrite (b_node_sim s1 s2 n2 HR). reflexivity.
    - intros s1 s2 n1 n2 HR [-> _]. apply b_node_sim; auto.
    - intros s1 s2 (_ & _ & [H1 H2]). cbn [s_changed bstore zstore].
      destruct (bv_changed s1), (v_changed s2); auto; [specialize (H1 eq_refl)|specialize (H2 eq_refl)]; discriminate.
    - discriminate.
  Qed.
End BtreeRefines.

Lemma RPb_empty : RPb ([], []) [].
Proof. split; [exact Logic.I|reflexivity]. Qed.
