(* C17 - the store-level LRUCache model refines the list-level specification.
   R c a zs : concrete state c represents abstract state a; zs lists, most recently used first,
   the node id of every cached entry next to the entry.  The ring is exactly 0 :: ids. *)
From Coq Require Import Permutation.
From DV Require Import Base.Prelude Model.CacheM Proofs.CacheRing Proofs.CacheDict.

Definition node_ok (s : store) (z : zent) : Prop :=
  payload s (fst z) = Some (Some (zkey z), Some (e_val (snd z)), e_hits (snd z)).

Record R (c : lru) (a : alru) (zs : list zent) : Prop := mkR {
  R_list : a_list a = map snd zs;
  R_keys : NoDup (map zkey zs);
  R_cyc : cyc (l_store c) (sentinel :: map fst zs);
  R_nodup : NoDup (sentinel :: map fst zs);
  R_nodes : Forall (node_ok (l_store c)) zs;
  R_dict : forall k, dget (l_dict c) k = option_map fst (zfind k zs);
  R_dkeys : NoDup (dkeys (l_dict c));
  R_len : length (l_dict c) = length zs;
  R_fresh : forall i, sget (l_store c) i <> None -> (i < l_fresh c)%nat;
  R_max : l_max c = a_max a;
  R_max1 : 1 <= l_max c;
  R_hits : l_hits c = a_hits a;
  R_miss : l_miss c = a_miss a }.

Ltac bind_ok E := rewrite E; cbn [bind].
Ltac proj := unfold lru_upd, lru_miss, alru_set_list, alru_miss;
  cbn [l_store l_dict l_max l_hits l_miss l_fresh a_list a_max a_hits a_miss].

Lemma nodup_app_comm : forall {A} (l1 l2 : list A), NoDup (l1 ++ l2) -> NoDup (l2 ++ l1).
Proof. intros A l1 l2 H. eapply Permutation_NoDup; [apply Permutation_app_comm|exact H]. Qed.

Lemma zfind_self : forall z1 z z2, NoDup (map zkey (z1 ++ z :: z2)) ->
  zfind (zkey z) z1 = None /\ zfind (zkey z) (z1 ++ z :: z2) = Some z.
Proof.
  intros z1 z z2 H. rewrite map_app in H. cbn in H.
  assert (A : zfind (zkey z) z1 = None).
  { apply zfind_none_notin. intros Hin. apply NoDup_remove_2 in H. apply H. apply in_or_app. auto. }
  split; [exact A|]. rewrite zfind_app_none by exact A. cbn. rewrite Z.eqb_refl. reflexivity.
Qed.

(* ---------- step 1: unlink the node of entry z *)
Lemma unlink_R : forall c a z1 z z2,
  R c a (z1 ++ z :: z2) ->
  exists s1, unlink (l_store c) (fst z) = Ok s1 /\
    cyc s1 (sentinel :: map fst (z1 ++ z2)) /\
    (forall j, payload s1 j = payload (l_store c) j) /\
    (forall j, sget s1 j = None <-> sget (l_store c) j = None).
Proof.
  intros c a z1 z z2 HR.
  pose proof (R_cyc _ _ _ HR) as Hc. pose proof (R_nodup _ _ _ HR) as Hnd.
  rewrite map_app in Hc, Hnd. cbn [map] in Hc, Hnd.
  change (sentinel :: map fst z1 ++ fst z :: map fst z2)
    with ((sentinel :: map fst z1) ++ (fst z :: map fst z2)) in Hc, Hnd.
  apply cyc_rot in Hc. apply nodup_app_comm in Hnd. cbn [app] in Hc, Hnd.
  destruct (unlink_cyc _ _ _ Hc Hnd) as [s1 [E [Hc1 [Y D]]]].
  { destruct (map fst z2); discriminate. }
  exists s1. split; [exact E|]. split; [|auto].
  apply cyc_rot in Hc1. cbn [app] in Hc1. rewrite map_app. exact Hc1.
Qed.

(* ---------- step 2: del self.data[node.key]; the node becomes garbage *)
Lemma drop_R : forall c a z1 z z2 s1,
  R c a (z1 ++ z :: z2) ->
  cyc s1 (sentinel :: map fst (z1 ++ z2)) ->
  (forall j, payload s1 j = payload (l_store c) j) ->
  exists c', drop_node c s1 (fst z) = Ok c' /\
    R c' (alru_set_list a (map snd (z1 ++ z2))) (z1 ++ z2).
Proof.
  intros c a z1 z z2 s1 HR Hc1 Y.
  pose proof (R_nodes _ _ _ HR) as Hn. rewrite Forall_app in Hn. destruct Hn as [Hn1 Hn2].
  apply Forall_cons_iff in Hn2. destruct Hn2 as [Hz Hn2].
  unfold node_ok in Hz. rewrite <- Y in Hz.
  destruct (payload_some _ _ _ Hz) as [nd [Hget Hpl]]. injection Hpl as Hk Hv Hh.
  destruct (zfind_self _ _ _ (R_keys _ _ _ HR)) as [Hz1 Hzf].
  assert (Hd : dget (l_dict c) (zkey z) = Some (fst z)).
  { rewrite (R_dict _ _ _ HR), Hzf. reflexivity. }
  destruct (ddel_some _ _ _ Hd) as [d' Hdel].
  destruct (ddel_spec _ _ _ Hdel (R_dkeys _ _ _ HR)) as [Dg [Dn [Dl _]]].
  exists (lru_upd c (sfree s1 (fst z)) d'). split.
  { unfold drop_node, getn. rewrite Hget. cbn [bind]. rewrite Hk, Hdel. reflexivity. }
  pose proof (R_nodup _ _ _ HR) as Hnd. rewrite map_app in Hnd. cbn [map] in Hnd.
  assert (Hnotin : ~ In (fst z) (sentinel :: map fst (z1 ++ z2))).
  { rewrite map_app.
    change (sentinel :: map fst z1 ++ fst z :: map fst z2)
      with ((sentinel :: map fst z1) ++ fst z :: map fst z2) in Hnd.
    apply NoDup_remove_2 in Hnd. exact Hnd. }
  constructor; proj.
  - reflexivity.
  - pose proof (R_keys _ _ _ HR) as K. rewrite map_app in *. cbn in K.
    apply NoDup_remove_1 in K. exact K.
  - apply cyc_sfree; auto.
  - rewrite map_app.
    change (sentinel :: map fst z1 ++ fst z :: map fst z2)
      with ((sentinel :: map fst z1) ++ fst z :: map fst z2) in Hnd.
    apply NoDup_remove_1 in Hnd. exact Hnd.
  - assert (Hall : Forall (node_ok (l_store c)) (z1 ++ z2)) by (apply Forall_app; auto).
    rewrite Forall_forall in *. intros y Hy. specialize (Hall y Hy). unfold node_ok in *.
    unfold payload. rewrite sget_sfree.
    destruct (Nat.eqb (fst z) (fst y)) eqn:E.
    + apply Nat.eqb_eq in E. exfalso. apply Hnotin. right. rewrite E. apply in_map. exact Hy.
    + fold (payload s1 (fst y)). rewrite Y. exact Hall.
  - intros k. rewrite Dg, (R_dict _ _ _ HR). rewrite (zfind_remove z1 z z2 k (R_keys _ _ _ HR)).
    destruct (zkey z =? k); reflexivity.
  - exact Dn.
  - rewrite (R_len _ _ _ HR) in Dl. rewrite !app_length in *. cbn in Dl. lia.
  - intros i Hi. apply (R_fresh _ _ _ HR). rewrite sget_sfree in Hi.
    destruct (Nat.eqb (fst z) i); [congruence|].
    pose proof (payload_dom _ _ Y i) as D. intros Hnone. apply D in Hnone. congruence.
  - apply (R_max _ _ _ HR).
  - apply (R_max1 _ _ _ HR).
  - apply (R_hits _ _ _ HR).
  - apply (R_miss _ _ _ HR).
Qed.

Lemma remove_R : forall c a z1 z z2,
  R c a (z1 ++ z :: z2) ->
  exists s1 c', unlink (l_store c) (fst z) = Ok s1 /\ drop_node c s1 (fst z) = Ok c' /\
    R c' (alru_set_list a (map snd (z1 ++ z2))) (z1 ++ z2).
Proof.
  intros c a z1 z z2 HR.
  destruct (unlink_R _ _ _ _ _ HR) as [s1 [E [Hc1 [Y _]]]].
  destruct (drop_R _ _ _ _ _ s1 HR Hc1 Y) as [c' [E2 HR']].
  eauto.
Qed.

Lemma R_ext : forall c a a' zs, R c a zs ->
  a_list a' = map snd zs -> a_max a' = a_max a -> a_hits a' = a_hits a -> a_miss a' = a_miss a ->
  R c a' zs.
Proof.
  intros c a a' zs HR H1 H2 H3 H4. destruct HR. constructor; auto; congruence.
Qed.

(* ---------- eviction *)
Lemma evict_one_R : forall c a zs z,
  R c a (zs ++ [z]) ->
  exists c', evict_one c = Ok c' /\ R c' (alru_set_list a (map snd zs)) zs /\ l_max c' = l_max c.
Proof.
  intros c a zs z HR.
  pose proof (R_cyc _ _ _ HR) as Hc. rewrite map_app in Hc. cbn [map] in Hc.
  apply cyc_prv_last in Hc. destruct (prv_some _ _ _ Hc) as [sen [Hs Hp]].
  destruct (remove_R _ _ _ _ _ HR) as [s1 [c' [E1 [E2 HR']]]].
  rewrite app_nil_r in HR'.
  exists c'. split; [|split; [exact HR'|]].
  - unfold evict_one, getn. rewrite Hs. cbn [bind]. rewrite Hp, E1. cbn [bind]. exact E2.
  - rewrite (R_max _ _ _ HR'), (R_max _ _ _ HR). reflexivity.
Qed.

Definition keep (strict : bool) (mx : Z) : Z := if strict then mx else mx - 1.

Lemma firstn_snoc_le : forall {A} n (l : list A) x, (n <= length l)%nat -> firstn n (l ++ [x]) = firstn n l.
Proof.
  intros A n l x H. rewrite firstn_app. replace (n - length l)%nat with 0%nat by lia.
  cbn. apply app_nil_r.
Qed.

Lemma evict_while_R : forall fuel strict c a zs,
  R c a zs -> (length zs < fuel)%nat ->
  exists c', evict_while fuel strict c = Ok c' /\
    R c' (alru_set_list a (map snd (firstn (Z.to_nat (keep strict (l_max c))) zs)))
         (firstn (Z.to_nat (keep strict (l_max c))) zs) /\
    l_max c' = l_max c.
Proof.
  induction fuel as [|f IH]; intros strict c a zs HR Hf; [lia|].
  cbn [evict_while]. unfold zlen. rewrite (R_len _ _ _ HR).
  pose proof (R_max1 _ _ _ HR) as M1.
  destruct (if strict then l_max c <? Z.of_nat (length zs) else l_max c <=? Z.of_nat (length zs)) eqn:Cond.
  - assert (Hlt : keep strict (l_max c) < Z.of_nat (length zs)).
    { unfold keep. destruct strict; [apply Z.ltb_lt in Cond|apply Z.leb_le in Cond]; lia. }
    assert (Hk0 : 0 <= keep strict (l_max c)) by (unfold keep; destruct strict; lia).
    destruct (@exists_last_or_nil _ zs) as [->|[zs' [z ->]]]; [cbn in Hlt; lia|].
    destruct (evict_one_R _ _ _ _ HR) as [c1 [E1 [HR1 Hm1]]].
    rewrite E1. cbn [bind].
    rewrite app_length in Hf, Hlt. cbn in Hf, Hlt.
    destruct (IH strict c1 _ zs' HR1) as [c' [E2 [HR2 Hm2]]]; [lia|].
    exists c'. split; [exact E2|]. rewrite Hm1 in HR2, Hm2. split; [|exact Hm2].
    rewrite firstn_snoc_le by lia. exact HR2.
  - exists c. split; [reflexivity|]. split; [|reflexivity].
    assert (Hge : Z.of_nat (length zs) <= keep strict (l_max c)).
    { unfold keep. destruct strict; [apply Z.ltb_ge in Cond|apply Z.leb_gt in Cond]; lia. }
    rewrite firstn_all2 by lia.
    eapply R_ext; [exact HR| | | |]; try reflexivity.
Qed.

(* ---------- a new node linked right after the sentinel *)
Lemma insert_R : forall c a zs key v,
  R c a zs -> zfind key zs = None ->
  exists s4,
    link_after (sset (l_store c) (l_fresh c) (mkNode (Some key) (Some v) 0 (l_fresh c) (l_fresh c)))
               (l_fresh c) sentinel = Ok s4 /\
    R (mkLru s4 (dset (l_dict c) key (l_fresh c)) (l_max c) (l_hits c) (l_miss c) (S (l_fresh c)))
      (alru_set_list a (mkEnt key v 0 :: map snd zs))
      ((l_fresh c, mkEnt key v 0) :: zs).
Proof.
  intros c a zs key v HR Hnf.
  set (i := l_fresh c). set (nd := mkNode (Some key) (Some v) 0 i i).
  assert (Hi : sget (l_store c) i = None).
  { destruct (sget (l_store c) i) eqn:E; [|reflexivity].
    assert (H : (i < l_fresh c)%nat) by (apply (R_fresh _ _ _ HR); congruence). unfold i in H. lia. }
  set (s3 := sset (l_store c) i nd).
  assert (Hc3 : cyc s3 (sentinel :: map fst zs)) by (apply cyc_sset_new; [apply (R_cyc _ _ _ HR)|exact Hi]).
  assert (Hnotin : ~ In i (sentinel :: map fst zs)).
  { intros Hin. eapply cyc_in_store; [apply (R_cyc _ _ _ HR)|exact Hin|exact Hi]. }
  assert (Hi3 : sget s3 i = Some nd) by (unfold s3; rewrite sget_sset, Nat.eqb_refl; reflexivity).
  destruct (link_after_cyc s3 sentinel (map fst zs) i nd Hc3 (R_nodup _ _ _ HR) Hnotin Hi3)
    as [s4 [E [Hc4 Y]]].
  exists s4. split; [exact E|].
  constructor; proj.
  - reflexivity.
  - cbn [map]. constructor; [|apply (R_keys _ _ _ HR)].
    change (zkey (i, mkEnt key v 0)) with key. apply zfind_none_notin. exact Hnf.
  - exact Hc4.
  - cbn [map fst]. pose proof (R_nodup _ _ _ HR) as Hnd. apply NoDup_cons_iff in Hnd.
    destruct Hnd as [H0 Hnd]. constructor.
    + intros [H|H]; [apply Hnotin; left; auto|contradiction].
    + constructor; [|exact Hnd]. intros H. apply Hnotin. right. exact H.
  - constructor.
    + unfold node_ok. cbn [fst snd]. rewrite Y. unfold payload. rewrite Hi3. reflexivity.
    + pose proof (R_nodes _ _ _ HR) as Hn. rewrite Forall_forall in *. intros y Hy.
      specialize (Hn y Hy). unfold node_ok in *. rewrite Y. unfold payload, s3. rewrite sget_sset.
      destruct (Nat.eqb i (fst y)) eqn:E1; [|exact Hn].
      apply Nat.eqb_eq in E1. exfalso. apply Hnotin. right. rewrite E1. apply in_map. exact Hy.
  - intros k. rewrite dget_dset. cbn [zfind]. change (zkey (i, mkEnt key v 0)) with key.
    destruct (key =? k); [reflexivity|apply (R_dict _ _ _ HR)].
  - apply nodup_dset. apply (R_dkeys _ _ _ HR).
  - cbn [length]. rewrite length_dset_new; [rewrite (R_len _ _ _ HR); reflexivity|].
    rewrite (R_dict _ _ _ HR), Hnf. reflexivity.
  - intros j Hj. pose proof (payload_dom _ _ Y j) as D.
    assert (Hj3 : sget s3 j <> None) by (intros H; apply D in H; congruence).
    unfold s3 in Hj3. rewrite sget_sset in Hj3. destruct (Nat.eqb i j) eqn:E1.
    + apply Nat.eqb_eq in E1. lia.
    + apply (R_fresh _ _ _ HR) in Hj3. fold i in Hj3. lia.
  - apply (R_max _ _ _ HR).
  - apply (R_max1 _ _ _ HR).
  - apply (R_hits _ _ _ HR).
  - apply (R_miss _ _ _ HR).
Qed.

(* ---------- a successful lookup: the node moves to the front, its hit count goes up *)
Lemma touch_R : forall c a z1 z z2 s1,
  R c a (z1 ++ z :: z2) ->
  cyc s1 (sentinel :: map fst (z1 ++ z2)) ->
  (forall j, payload s1 j = payload (l_store c) j) ->
  exists s2 n2 s3,
    link_after s1 (fst z) sentinel = Ok s2 /\ sget s2 (fst z) = Some n2 /\
    n_hits n2 = e_hits (snd z) /\ set_hits s2 (fst z) (e_hits (snd z) + 1) = Ok s3 /\
    R (mkLru s3 (l_dict c) (l_max c) (l_hits c + 1) (l_miss c) (l_fresh c))
      (mkALru (mkEnt (zkey z) (e_val (snd z)) (e_hits (snd z) + 1) :: map snd (z1 ++ z2))
              (a_max a) (a_hits a + 1) (a_miss a))
      ((fst z, mkEnt (zkey z) (e_val (snd z)) (e_hits (snd z) + 1)) :: z1 ++ z2).
Proof.
  intros c a z1 z z2 s1 HR Hc1 Y.
  set (i := fst z).
  pose proof (R_nodes _ _ _ HR) as Hn. rewrite Forall_app in Hn. destruct Hn as [Hn1 Hn2].
  apply Forall_cons_iff in Hn2. destruct Hn2 as [Hz Hn2].
  assert (Hall : Forall (node_ok (l_store c)) (z1 ++ z2)) by (apply Forall_app; auto).
  unfold node_ok in Hz. rewrite <- Y in Hz.
  destruct (payload_some _ _ _ Hz) as [nd [Hget Hpl]].
  pose proof (R_nodup _ _ _ HR) as Hnd. rewrite map_app in Hnd. cbn [map] in Hnd.
  change (sentinel :: map fst z1 ++ fst z :: map fst z2)
    with ((sentinel :: map fst z1) ++ fst z :: map fst z2) in Hnd.
  assert (Hnotin : ~ In i (sentinel :: map fst (z1 ++ z2))).
  { rewrite map_app. apply NoDup_remove_2 in Hnd. exact Hnd. }
  assert (Hnd' : NoDup (sentinel :: map fst (z1 ++ z2))).
  { rewrite map_app. apply NoDup_remove_1 in Hnd. exact Hnd. }
  destruct (link_after_cyc s1 sentinel _ i nd Hc1 Hnd' Hnotin Hget) as [s2 [E2 [Hc2 Y2]]].
  assert (Hz2 : payload s2 i = Some (Some (zkey z), Some (e_val (snd z)), e_hits (snd z))).
  { rewrite Y2. exact Hz. }
  destruct (payload_some _ _ _ Hz2) as [n2 [Hget2 Hpl2]]. injection Hpl2 as Hk2 Hv2 Hh2.
  destruct (set_hits_spec s2 i (e_hits (snd z) + 1) n2 Hget2) as [s3 [E3 [N3 [P3 Y3]]]].
  exists s2, n2, s3. split; [exact E2|]. split; [exact Hget2|]. split; [exact Hh2|]. split; [exact E3|].
  destruct (zfind_self _ _ _ (R_keys _ _ _ HR)) as [Hz1 Hzf].
  constructor; proj.
  - reflexivity.
  - cbn [map]. change (zkey (i, mkEnt (zkey z) (e_val (snd z)) (e_hits (snd z) + 1))) with (zkey z).
    pose proof (R_keys _ _ _ HR) as K. rewrite map_app in *. cbn [map] in K.
    constructor; [apply NoDup_remove_2 in K; exact K|apply NoDup_remove_1 in K; exact K].
  - cbn [map fst]. eapply cyc_frame; [| |exact Hc2]; intros y _; auto.
  - cbn [map fst]. constructor; [|constructor].
    + intros [H|H]; [apply Hnotin; left; auto|apply NoDup_cons_iff in Hnd'; tauto].
    + intros H. apply Hnotin. right. exact H.
    + apply NoDup_cons_iff in Hnd'. tauto.
  - constructor.
    + unfold node_ok. cbn [fst snd]. rewrite Y3, Nat.eqb_refl, Hk2, Hv2. reflexivity.
    + rewrite Forall_forall in *. intros y Hy. specialize (Hall y Hy). unfold node_ok in *.
      rewrite Y3. destruct (Nat.eqb i (fst y)) eqn:E1.
      * apply Nat.eqb_eq in E1. exfalso. apply Hnotin. right. rewrite E1. apply in_map. exact Hy.
      * rewrite Y2, Y. exact Hall.
  - intros k. rewrite (R_dict _ _ _ HR). cbn [zfind].
    change (zkey (i, mkEnt (zkey z) (e_val (snd z)) (e_hits (snd z) + 1))) with (zkey z).
    rewrite (zfind_remove z1 z z2 k (R_keys _ _ _ HR)).
    destruct (zkey z =? k) eqn:E1; [|reflexivity].
    apply Z.eqb_eq in E1. subst k. rewrite Hzf. reflexivity.
  - apply (R_dkeys _ _ _ HR).
  - rewrite (R_len _ _ _ HR). cbn [length]. rewrite !app_length. cbn [length]. lia.
  - intros j Hj. apply (R_fresh _ _ _ HR).
    pose proof (payload_dom _ _ Y j) as D1. pose proof (payload_dom _ _ Y2 j) as D2.
    intros H. apply D1 in H. apply D2 in H.
    specialize (Y3 j). unfold payload in Y3 at 1. destruct (sget s3 j) eqn:E4; [|congruence].
    destruct (Nat.eqb i j) eqn:E5.
    + apply Nat.eqb_eq in E5. subst j. congruence.
    + unfold payload in Y3. rewrite H in Y3. discriminate.
  - apply (R_max _ _ _ HR).
  - apply (R_max1 _ _ _ HR).
  - rewrite (R_hits _ _ _ HR). reflexivity.
  - apply (R_miss _ _ _ HR).
Qed.

(* ---------- flush(): unlink every node *)
Lemma flush_loop_R : forall ids fuel s,
  cyc s (sentinel :: ids) -> NoDup (sentinel :: ids) -> (length ids < fuel)%nat ->
  exists s', flush_loop fuel s (hd sentinel ids) = Ok s' /\ cyc s' [sentinel] /\
    (forall j, sget s' j <> None -> sget s j <> None).
Proof.
  induction ids as [|g ids IH]; intros fuel s Hc Hnd Hf; (destruct fuel as [|f]; [cbn in Hf; lia|]).
  - exists s. cbn. auto.
  - cbn [flush_loop hd].
    assert (Hg0 : g <> sentinel).
    { intros ->. apply NoDup_cons_iff in Hnd. apply (proj1 Hnd). left; reflexivity. }
    destruct (Nat.eqb g sentinel) eqn:E0; [apply Nat.eqb_eq in E0; congruence|].
    assert (Hnext : nxt s g = Some (hd sentinel ids)).
    { cbn [cyc path] in Hc. destruct Hc as [_ Hp]. destruct ids as [|x r]; cbn [path hd] in *.
      - apply Hp. - apply Hp. }
    destruct (nxt_some _ _ _ Hnext) as [gn [Hgn Hgn_next]].
    unfold getn. rewrite Hgn. cbn [bind].
    change (sentinel :: g :: ids) with ([sentinel] ++ g :: ids) in Hc, Hnd.
    apply cyc_rot in Hc. apply nodup_app_comm in Hnd. cbn [app] in Hc, Hnd.
    destruct (unlink_cyc _ _ _ Hc Hnd) as [s1 [E1 [Hc1 [Y1 D1]]]].
    { destruct ids; discriminate. }
    rewrite E1. cbn [bind]. rewrite Hgn_next.
    apply cyc_rot in Hc1. cbn [app] in Hc1.
    apply NoDup_cons_iff in Hnd. destruct Hnd as [Hgn_in Hnd].
    apply nodup_app_comm in Hnd. cbn [app] in Hnd.
    assert (Hgn_in' : ~ In g (sentinel :: ids)).
    { intros [H|H]; [congruence|]. apply Hgn_in. apply in_or_app. auto. }
    destruct (IH f (sfree s1 g)) as [s' [E2 [Hc2 D2]]].
    + apply cyc_sfree; auto.
    + exact Hnd.
    + cbn in Hf. lia.
    + exists s'. split; [exact E2|]. split; [exact Hc2|].
      intros j Hj. apply D2 in Hj. rewrite sget_sfree in Hj.
      destruct (Nat.eqb g j); [congruence|]. intros H. apply D1 in H. congruence.
Qed.

Lemma sget_in_dom : forall s i, sget s i <> None -> In i (map fst s).
Proof.
  induction s as [|[j n] s IH]; intros i H; cbn in *; [congruence|].
  destruct (Nat.eqb j i) eqn:E; [apply Nat.eqb_eq in E; auto|auto].
Qed.

Lemma ring_fits_store : forall s m, cyc s m -> NoDup m -> (length m <= length s)%nat.
Proof.
  intros s m Hc Hnd. rewrite <- (map_length fst s). apply NoDup_incl_length; [exact Hnd|].
  intros x Hx. apply sget_in_dom. eapply cyc_in_store; eauto.
Qed.

Lemma R_miss_step : forall c a zs, R c a zs -> R (lru_miss c) (alru_miss a) zs.
Proof.
  intros c a zs HR. destruct HR. constructor; proj; auto. rewrite R_miss0. reflexivity.
Qed.

Lemma afind_R : forall c a zs k, R c a zs -> afind (a_list a) k = option_map snd (zfind k zs).
Proof. intros c a zs k HR. rewrite (R_list _ _ _ HR). apply afind_zfind. Qed.

Lemma node_val : forall s z, node_ok s z ->
  exists n, sget s (fst z) = Some n /\ n_key n = Some (zkey z) /\
            n_val n = Some (e_val (snd z)) /\ n_hits n = e_hits (snd z).
Proof.
  intros s z H. destruct (payload_some _ _ _ H) as [n [Hg Hp]]. injection Hp as A B C. eauto.
Qed.

Lemma node_ok_in : forall c a z1 z z2, R c a (z1 ++ z :: z2) -> node_ok (l_store c) z.
Proof.
  intros c a z1 z z2 HR. pose proof (R_nodes _ _ _ HR) as Hn. rewrite Forall_forall in Hn.
  apply Hn. apply in_or_app. right. left. reflexivity.
Qed.

(* ------------------------------------------------------------------ the simulation, call by call *)
Definition sim (cl : call) : Prop := forall c a zs k,
  R c a zs ->
  exists c' zs',
    lru_step cl c k = Ok (fst (fst (alru_step cl a k)), c', snd (alru_step cl a k)) /\
    R c' (snd (fst (alru_step cl a k))) zs'.

Lemma sim_get : forall key, sim (Get key).
Proof.
  intros key c a zs k HR. unfold lru_step, alru_step.
  rewrite (R_dict _ _ _ HR), (afind_R _ _ _ key HR).
  destruct (zfind key zs) as [z|] eqn:Ez; cbn [option_map].
  2:{ exists (lru_miss c), zs. split; [reflexivity|]. apply R_miss_step. exact HR. }
  destruct (zfind_split _ _ _ Ez) as [z1 [z2 [-> [Hk Hz1]]]]. subst key.
  destruct (unlink_R _ _ _ _ _ HR) as [s1 [E1 [Hc1 [Y1 D1]]]].
  rewrite E1. cbn [bind].
  pose proof (node_ok_in _ _ _ _ _ HR) as Hok. unfold node_ok in Hok. rewrite <- Y1 in Hok.
  destruct (node_val s1 z Hok) as [n [Hg [Hnk [Hnv Hnh]]]].
  unfold getn at 1. rewrite Hg. cbn [bind]. rewrite Hnv.
  destruct (tick k) as [t k1] eqn:Et.
  destruct (a_exp (e_val (snd z)) <=? t) eqn:Ex.
  - destruct (drop_R _ _ _ _ _ s1 HR Hc1 Y1) as [c' [E2 HR']].
    rewrite E2. cbn [bind fst snd].
    exists (lru_miss c'), (z1 ++ z2). split; [reflexivity|].
    rewrite (R_list _ _ _ HR), aremove_split by exact Hz1.
    apply R_miss_step. exact HR'.
  - destruct (touch_R _ _ _ _ _ s1 HR Hc1 Y1) as [s2 [n2 [s3 [E2 [Hg2 [Hh2 [E3 HR']]]]]]].
    rewrite E2. cbn [bind]. unfold getn. rewrite Hg2. cbn [bind]. rewrite Hh2, E3. cbn [bind fst snd].
    eexists _, _. split; [reflexivity|].
    rewrite (R_list _ _ _ HR), aremove_split by exact Hz1. exact HR'.
Qed.

Lemma sim_hitsfor : forall key, sim (HitsFor key).
Proof.
  intros key c a zs k HR. unfold lru_step, alru_step.
  rewrite (R_dict _ _ _ HR), (afind_R _ _ _ key HR).
  destruct (zfind key zs) as [z|] eqn:Ez; cbn [option_map].
  2:{ exists c, zs. split; [reflexivity|exact HR]. }
  destruct (zfind_split _ _ _ Ez) as [z1 [z2 [-> [Hk Hz1]]]].
  pose proof (node_ok_in _ _ _ _ _ HR) as Hok.
  destruct (node_val _ z Hok) as [n [Hg [Hnk [Hnv Hnh]]]].
  unfold getn. rewrite Hg. cbn [bind]. rewrite Hnv, Hnh.
  destruct (tick k) as [t k1]. destruct (a_exp (e_val (snd z)) <=? t); cbn [fst snd];
    eexists _, _; (split; [reflexivity|exact HR]).
Qed.

Lemma sim_flush_key : forall key, sim (Flush (Some key)).
Proof.
  intros key c a zs k HR. unfold lru_step, alru_step.
  rewrite (R_dict _ _ _ HR). cbn [fst snd].
  destruct (zfind key zs) as [z|] eqn:Ez; cbn [option_map].
  - destruct (zfind_split _ _ _ Ez) as [z1 [z2 [-> [Hk Hz1]]]]. subst key.
    destruct (remove_R _ _ _ _ _ HR) as [s1 [c' [E1 [E2 HR']]]].
    rewrite E1. cbn [bind]. rewrite E2. cbn [bind].
    exists c', (z1 ++ z2). split; [reflexivity|].
    rewrite (R_list _ _ _ HR), aremove_split by exact Hz1. exact HR'.
  - exists c, zs. split; [reflexivity|].
    assert (Hnone : afind (a_list a) key = None) by (rewrite (afind_R _ _ _ key HR), Ez; reflexivity).
    rewrite aremove_absent by exact Hnone.
    eapply R_ext; [exact HR| | | |]; try reflexivity. apply (R_list _ _ _ HR).
Qed.

Lemma sim_flush_all : sim (Flush None).
Proof.
  intros c a zs k HR. unfold lru_step, alru_step. cbn [fst snd].
  pose proof (R_cyc _ _ _ HR) as Hc.
  assert (Hn0 : nxt (l_store c) sentinel = Some (hd sentinel (map fst zs))).
  { destruct (map fst zs) as [|x r]; cbn [cyc path hd] in *; apply Hc. }
  destruct (nxt_some _ _ _ Hn0) as [sen [Hs Hsn]].
  unfold getn. rewrite Hs. cbn [bind]. rewrite Hsn.
  destruct (flush_loop_R (map fst zs) (S (length (l_store c))) (l_store c) Hc (R_nodup _ _ _ HR))
    as [s' [E [Hc' D]]].
  { pose proof (ring_fits_store _ _ Hc (R_nodup _ _ _ HR)) as HL. cbn [length] in HL. lia. }
  rewrite E. cbn [bind].
  exists (lru_upd c s' []), []. split; [reflexivity|].
  constructor; proj; cbn [map zfind option_map dget length]; auto.
  - constructor.
  - constructor; [tauto|constructor].
  - constructor.
  - intros i Hi. apply (R_fresh _ _ _ HR). apply D. exact Hi.
  - apply (R_max _ _ _ HR).
  - apply (R_max1 _ _ _ HR).
  - apply (R_hits _ _ _ HR).
  - apply (R_miss _ _ _ HR).
Qed.

Lemma zfind_firstn_none : forall n zs k, zfind k zs = None -> zfind k (firstn n zs) = None.
Proof.
  intros n zs k H. apply zfind_none_notin. apply zfind_none_notin in H. intros Hin. apply H.
  rewrite <- firstn_map in Hin. eapply in_firstn. exact Hin.
Qed.

Lemma put_tail : forall c1 a1 zs1 key v (k : clk),
  R c1 a1 zs1 -> zfind key zs1 = None ->
  exists c' zs',
    (do st2 <- evict_while (evict_fuel c1) false c1;
     let i := l_fresh st2 in
     let s3 := sset (l_store st2) i (mkNode (Some key) (Some v) 0 i i) in
     do s4 <- link_after s3 i sentinel;
     Ok (RNone, mkLru s4 (dset (l_dict st2) key i) (l_max st2) (l_hits st2) (l_miss st2) (S i), k))
    = Ok (RNone, c', k) /\
    R c' (mkALru (mkEnt key v 0 :: atrim (map snd zs1) (a_max a1 - 1)) (a_max a1) (a_hits a1) (a_miss a1)) zs'.
Proof.
  intros c1 a1 zs1 key v k HR Hnf.
  destruct (evict_while_R (evict_fuel c1) false c1 a1 zs1 HR) as [c2 [E2 [HR2 Hm2]]].
  { unfold evict_fuel. rewrite (R_len _ _ _ HR). lia. }
  rewrite E2. cbn [bind]. cbv zeta.
  set (n := Z.to_nat (keep false (l_max c1))) in *.
  destruct (insert_R c2 _ _ key v HR2 (zfind_firstn_none n _ _ Hnf)) as [s4 [E4 HR4]].
  rewrite E4. cbn [bind].
  eexists _, _. split; [reflexivity|].
  eapply R_ext; [exact HR4| | | |]; proj; try reflexivity.
  cbn [map snd]. unfold atrim, n, keep. rewrite (R_max _ _ _ HR), firstn_map. reflexivity.
Qed.

Lemma sim_put : forall key v, sim (Put key v).
Proof.
  intros key v c a zs k HR. unfold lru_step, alru_step. cbn [fst snd].
  rewrite (R_dict _ _ _ HR).
  destruct (zfind key zs) as [z|] eqn:Ez; cbn [option_map].
  - destruct (zfind_split _ _ _ Ez) as [z1 [z2 [-> [Hk Hz1]]]]. subst key.
    destruct (remove_R _ _ _ _ _ HR) as [s1 [c1 [E1 [E2 HR1]]]].
    rewrite E1. cbn [bind]. rewrite E2. cbn [bind].
    assert (Hnf : zfind (zkey z) (z1 ++ z2) = None).
    { rewrite (zfind_remove z1 z z2 (zkey z) (R_keys _ _ _ HR)), Z.eqb_refl. reflexivity. }
    destruct (put_tail c1 _ _ (zkey z) v k HR1 Hnf) as [c' [zs' [E3 HR3]]].
    exists c', zs'. split; [exact E3|].
    eapply R_ext; [exact HR3| | | |]; proj; try reflexivity.
    rewrite (R_list _ _ _ HR), aremove_split by exact Hz1.
    apply (R_list _ _ _ HR3).
  - cbn [bind].
    destruct (put_tail c a zs key v k HR Ez) as [c' [zs' [E3 HR3]]].
    exists c', zs'. split; [exact E3|].
    assert (Hnone : afind (a_list a) key = None) by (rewrite (afind_R _ _ _ key HR), Ez; reflexivity).
    eapply R_ext; [exact HR3| | | |]; proj; try reflexivity.
    rewrite aremove_absent by exact Hnone. rewrite (R_list _ _ _ HR).
    apply (R_list _ _ _ HR3).
Qed.

Lemma set_max_R : forall c a zs m,
  l_store c <> [] -> True ->
  R (mkLru (l_store c) (l_dict c) (if m <? 1 then 1 else m) (l_hits c) (l_miss c) (l_fresh c))
    (mkALru (a_list a) (if m <? 1 then 1 else m) (a_hits a) (a_miss a)) zs ->
  exists c' zs',
    lru_set_max c m = Ok c' /\
    R c' (mkALru (atrim (a_list a) (if m <? 1 then 1 else m)) (if m <? 1 then 1 else m) (a_hits a) (a_miss a)) zs'.
Proof.
  intros c a zs m _ _ HR. unfold lru_set_max.
  set (m' := if m <? 1 then 1 else m) in *.
  set (c1 := mkLru (l_store c) (l_dict c) m' (l_hits c) (l_miss c) (l_fresh c)) in *.
  destruct (evict_while_R (evict_fuel c1) true c1 _ zs HR) as [c2 [E2 [HR2 Hm2]]].
  { unfold evict_fuel. rewrite (R_len _ _ _ HR). lia. }
  exists c2, (firstn (Z.to_nat m') zs). split; [exact E2|].
  eapply R_ext; [exact HR2| | | |]; proj; try reflexivity.
  unfold atrim. pose proof (R_list _ _ _ HR) as HL. cbn [a_list] in HL. rewrite HL, firstn_map.
  reflexivity.
Qed.

Lemma sim_setmax : forall m, sim (SetMax m).
Proof.
  intros m c a zs k HR. unfold lru_step, alru_step. cbn [fst snd].
  destruct (set_max_R c a zs m) as [c' [zs' [E HR']]]; auto.
  { pose proof (R_cyc _ _ _ HR) as Hc. intros H. eapply cyc_in_store; [exact Hc|left; reflexivity|].
    rewrite H. reflexivity. }
  { destruct HR. constructor; proj; auto. destruct (m <? 1) eqn:E; [lia|apply Z.ltb_ge in E; lia]. }
  rewrite E. cbn [bind]. exists c', zs'. split; [reflexivity|exact HR'].
Qed.

Theorem sim_step : forall cl, sim cl.
Proof.
  intros [key|key v|[key|]|m|key| | | |].
  - apply sim_get.
  - apply sim_put.
  - apply sim_flush_key.
  - apply sim_flush_all.
  - apply sim_setmax.
  - apply sim_hitsfor.
  - intros c a zs k HR. exists c, zs. cbn. rewrite (R_hits _ _ _ HR). auto.
  - intros c a zs k HR. exists c, zs. cbn. rewrite (R_miss _ _ _ HR). auto.
  - intros c a zs k HR. exists c, zs. cbn. rewrite (R_hits _ _ _ HR), (R_miss _ _ _ HR). auto.
  - intros c a zs k HR. eexists _, zs. cbn. split; [reflexivity|].
    destruct HR. constructor; proj; auto.
Qed.

(* LRUCache(max_size) *)
Lemma init_R : forall m, exists c, lru_init m = Ok c /\ R c (alru_init m) [].
Proof.
  intros m. unfold lru_init.
  destruct (set_max_R (mkLru [(sentinel, mkNode None None 0 sentinel sentinel)] [] 0 0 0 1%nat)
              (mkALru [] 0 0 0) [] m) as [c' [zs' [E HR']]]; auto.
  { discriminate. }
  { constructor; proj; cbn [map]; auto.
    - constructor.
    - cbn. unfold linked, nxt, prv. cbn. auto.
    - constructor; [tauto|constructor].
    - constructor.
    - intros i Hi. cbn in Hi. destruct i; [cbn; lia|]. cbn in Hi. congruence.
    - destruct (m <? 1) eqn:E; [lia|apply Z.ltb_ge in E; lia]. }
  exists c'. split; [exact E|].
  unfold alru_init. cbn [a_list a_hits a_miss atrim] in HR'. unfold atrim in HR'.
  rewrite firstn_nil in HR'.
  pose proof (R_list _ _ _ HR') as HL. cbn [a_list] in HL.
  destruct zs'; [exact HR'|discriminate].
Qed.
