(* SVCB / HTTPS: whatever the reader accepts (after the dict semantics "last value wins") encodes,
   and the encoding decodes to the same record: fixed point of decode-then-encode. *)
From DV Require Import Base.Prelude Model.NameM Model.SchemaM Model.SchemaHand
  Proofs.SchemaName Proofs.SchemaCodec Proofs.SchemaThm Proofs.SchemaFix Proofs.SchemaHandThm.
Open Scope Z_scope.

Lemma svcb_params_enc_total : forall ps,
  forallb svcb_param_row_ok ps = true -> exists b, svcb_params_enc ps = Ok b.
Proof.
  induction ps as [|r rr IH]; intros H; [cbn; eauto|].
  cbn [forallb] in H. apply andb_prop in H as [Hr H2].
  destruct r as [|[k| | ] [|[ |raw| ] [|]]]; cbn [svcb_param_row_ok] in Hr; try discriminate.
  apply andb_prop in Hr as [Hr _]. apply andb_prop in Hr as [Hr Hl]. apply andb_prop in Hr as [K0 K1].
  destruct (IH H2) as [b Eb]. cbn [svcb_params_enc].
  replace ((0 <=? k) && (k <? 65536) && (zlen raw <? 65536)) with true by lia.
  rewrite Eb. cbn [bind]. eauto.
Qed.

Theorem svcb_fixed_point_thm : forall wire cur rdlen vs,
  hand_decode_rdata HSvcb None wire cur rdlen = Ok vs ->
  exists w', hand_encode_rdata HSvcb None vs = Ok w' /\
             hand_decode_rdata HSvcb None w' 0 (length w') = Ok vs.
Proof.
  intros wire cur rdlen vs H. unfold hand_decode_rdata in H.
  destruct (Nat.ltb (length wire) cur); [discriminate|].
  destruct (Nat.ltb (length wire - cur) rdlen); [discriminate|]. cbv zeta in H.
  cbn [hand_dec hand_valid] in H.
  destruct (svcb_dec wire None (cur + rdlen) cur) as [[vs' c]| |] eqn:Ed; cbn [bind fst snd] in H; try discriminate.
  destruct (svcb_valid vs') eqn:Hv; cbn [negb] in H; [|discriminate].
  destruct (Nat.eqb c (cur + rdlen)); [|discriminate]. injection H as <-.
  unfold svcb_dec in Ed.
  inv_bind Ed. destruct x as [prio c1]. inv_bind Ed. destruct x as [tgt c2]. cbn [fst snd] in Ed.
  destruct ((prio =? 0) && negb (Nat.eqb (cur + rdlen - c2) 0)) eqn:Ealias; [discriminate|].
  inv_bind Ed. destruct x as [ps c3]. injection Ed as <- _. cbn [fst snd] in *.
  (* the target is absolute *)
  assert (Habs : is_absolute tgt = true).
  { unfold get_name in E0. destruct (NameM.from_wire (firstn (cur + rdlen) wire) c1) as [[n k]| |] eqn:Ef; try discriminate.
    cbn in E0. injection E0 as <- _. apply from_wire_abs_valid in Ef. tauto. }
  (* AliasMode: no parameters were read *)
  assert (Hal : prio <> 0 \/ dedupe_last ps = []).
  { destruct (prio =? 0) eqn:Ep; [|left; lia]. right.
    cbn [andb] in Ealias. apply negb_false_iff in Ealias. apply Nat.eqb_eq in Ealias.
    cbn [svcb_params_dec] in E1.
    destruct (Nat.leb_spec (cur + rdlen) c2) as [_|Hlt]; [|lia].
    injection E1 as <- _. reflexivity. }
  pose proof Hv as Hv'. unfold svcb_valid in Hv'.
  apply andb_prop in Hv' as [Hv' Hrec]. apply andb_prop in Hv' as [Hv' Hasc]. apply andb_prop in Hv' as [Hv' Hrows].
  apply andb_prop in Hv' as [Hv' Hname]. apply andb_prop in Hv' as [Hp0 Hp1].
  destruct (svcb_params_enc_total _ Hrows) as [p Ep].
  assert (Henc : exists w', hand_encode_rdata HSvcb None [VS (VI prio); VS (VN tgt); VL (dedupe_last ps)] = Ok w').
  { unfold hand_encode_rdata. cbn [hand_valid hand_enc]. rewrite Hv. cbn [svcb_enc].
    replace ((0 <=? prio) && (prio <? 65536)) with true by lia.
    unfold NameM.to_wire. rewrite Habs. cbn [bind]. rewrite Ep. cbn [bind]. eauto. }
  destruct Henc as [w' Ew]. exists w'. split; [exact Ew|].
  pose proof (svcb_roundtrip_thm prio tgt (dedupe_last ps) w' [] [] Hal Ew) as Hr.
  cbn [app length] in Hr. rewrite app_nil_r in Hr. exact Hr.
Qed.
