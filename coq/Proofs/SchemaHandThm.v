(* Round trips of the hand-modelled irregular codecs (no origin): HIP, IPSECKEY, AMTRELAY, APL. *)
From DV Require Import Base.Prelude Model.NameM Model.SchemaM Model.SchemaHand
  Proofs.SchemaName Proofs.SchemaCodec Proofs.SchemaThm Proofs.SchemaFix Proofs.SchemaReenc.
Open Scope Z_scope.
Ltac Zify.zify_post_hook ::= Z.to_euclidean_division_equations.

Lemma get_u_at : forall W endp cur w z (A R P : list Z),
  W = A ++ be_encode w z ++ R ++ P -> endp = (length A + w + length R)%nat -> cur = length A ->
  0 <= z < pow256 w ->
  get_u W endp cur w = Ok (z, (length A + w)%nat).
Proof.
  intros W endp cur w z A R P -> -> -> Hz. unfold get_u.
  rewrite (gb_at' _ _ _ _ A (be_encode w z) R P) by (try reflexivity; rewrite ?be_encode_length; lia).
  cbn [bind fst snd]. rewrite be_decode_encode by assumption. rewrite be_encode_length. reflexivity.
Qed.

#[local] Arguments be_encode : simpl never.
#[local] Arguments pow256 : simpl never.

Ltac list_eq' := rewrite <- ?app_assoc; reflexivity.

Lemma Ok_inj {A} (a b : A) : @Ok A a = Ok b -> a = b.
Proof. congruence. Qed.

Lemma pow256_1 : pow256 1 = 256. Proof. reflexivity. Qed.
Lemma pow256_2 : pow256 2 = 65536. Proof. reflexivity. Qed.

(* ------------------------------------------------------------------ HIP *)
Theorem hip_roundtrip_thm : forall vs b A P,
  hand_encode_rdata HHip None vs = Ok b ->
  hand_decode_rdata HHip None (A ++ b ++ P) (length A) (length b) = Ok vs.
Proof.
  intros vs b A P He. unfold hand_encode_rdata in He. cbn [hand_valid hand_enc] in He.
  destruct (hip_valid vs) eqn:Hv; [|discriminate].
  unfold hip_valid in Hv.
  destruct vs as [|[[ | hit | ]|] [|[[alg | | ]|] [|[[ | key | ]|] [|[|srv] [|]]]]]; try discriminate.
  cbn [hip_enc] in He.
  destruct ((zlen hit <? 256) && (0 <=? alg) && (alg <? 256) && (zlen key <? 65536)) eqn:Hr; [|discriminate].
  inv_bind He. apply Ok_inj in He. subst b. rename x into s.
  apply andb_prop in Hr as [Hr Hk]. apply andb_prop in Hr as [Hr Ha2]. apply andb_prop in Hr as [Hh Ha1].
  apply andb_prop in Hv as [Hv Hsrv].
  pose proof (zlen_nonneg hit). pose proof (zlen_nonneg key).
  unfold hand_decode_rdata.
  repeat match goal with |- context [Nat.ltb ?a ?b] =>
    destruct (Nat.ltb_spec a b) as [Hx|_]; [exfalso; rewrite ?app_length in Hx; lia|] end.
  cbv zeta. cbn [hand_dec hand_valid]. unfold hip_dec.
  set (b1 := be_encode 1 (zlen hit)). set (b2 := be_encode 1 alg). set (b3 := be_encode 2 (zlen key)).
  assert (L1 : length b1 = 1%nat) by apply be_encode_length.
  assert (L2 : length b2 = 1%nat) by apply be_encode_length.
  assert (L3 : length b3 = 2%nat) by apply be_encode_length.
  rewrite (get_u_at _ _ _ 1 (zlen hit) A (b2 ++ b3 ++ hit ++ key ++ s) P)
    by (try (subst b1 b2 b3; list_eq'); try (rewrite pow256_1; lia); rewrite ?app_length; lia).
  cbn [bind fst snd].
  rewrite (get_u_at _ _ _ 1 alg (A ++ b1) (b3 ++ hit ++ key ++ s) P)
    by (try (subst b1 b2 b3; list_eq'); try (rewrite pow256_1; lia); rewrite ?app_length; lia).
  cbn [bind fst snd].
  rewrite (get_u_at _ _ _ 2 (zlen key) ((A ++ b1) ++ b2) (hit ++ key ++ s) P)
    by (try (subst b1 b2 b3; list_eq'); try (rewrite pow256_2; lia); rewrite ?app_length; lia).
  cbn [bind fst snd].
  replace (Z.to_nat (zlen hit)) with (length hit) by (unfold zlen; lia).
  replace (Z.to_nat (zlen key)) with (length key) by (unfold zlen; lia).
  rewrite (gb_at' _ _ _ _ (((A ++ b1) ++ b2) ++ b3) hit (key ++ s) P)
    by (try (subst b1 b2 b3; list_eq'); rewrite ?app_length; lia).
  cbn [bind fst snd].
  rewrite (gb_at' _ _ _ _ ((((A ++ b1) ++ b2) ++ b3) ++ hit) key s P)
    by (try (subst b1 b2 b3; list_eq'); rewrite ?app_length; lia).
  cbn [bind fst snd].
  pose proof (dec_rows_rt None nok_none hname_none [FName true] srv s
                (S (length s)) (((((A ++ b1) ++ b2) ++ b3) ++ hit) ++ key) P) as Hrows.
  replace ((((((A ++ b1) ++ b2) ++ b3) ++ hit) ++ key) ++ s ++ P)
    with (A ++ (b1 ++ b2 ++ b3 ++ hit ++ key ++ s) ++ P) in Hrows by list_eq'.
  replace (length (((((A ++ b1) ++ b2) ++ b3) ++ hit) ++ key) + length s)%nat
    with (length A + length (b1 ++ b2 ++ b3 ++ hit ++ key ++ s))%nat in Hrows by (rewrite ?app_length; lia).
  replace (length (((((A ++ b1) ++ b2) ++ b3) ++ hit) ++ key))
    with (length ((((A ++ b1) ++ b2) ++ b3) ++ hit) + length key)%nat in Hrows by (rewrite ?app_length; lia).
  replace (length A + length (b1 ++ b2 ++ b3 ++ hit ++ key ++ s) - (length ((((A ++ b1) ++ b2) ++ b3) ++ hit) + length key))%nat
    with (length s) by (rewrite ?app_length; lia).
  rewrite Hrows; try assumption; try discriminate; try reflexivity; try lia.
  2:{ apply Forall_forall. intros r Hin. apply valid_nok_row.
      rewrite forallb_forall in Hsrv. apply Hsrv. exact Hin. }
  cbn [bind fst snd].
  assert (Hval : hip_valid [VS (VB hit); VS (VI alg); VS (VB key); VL srv] = true).
  { unfold hip_valid. rewrite Hv, Hsrv. reflexivity. }
  rewrite Hval. cbn [negb]. rewrite Nat.eqb_refl. reflexivity.
Qed.

(* ------------------------------------------------------------------ Gateway *)
Lemma gw_rt : forall gt g b A R P,
  gw_valid gt g = true -> gw_enc None g = Ok b ->
  gw_dec (A ++ b ++ R ++ P) None gt (length A + length b + length R) (length A)
  = Ok (g, (length A + length b)%nat).
Proof.
  intros gt g b A R P Hv He. unfold gw_dec.
  destruct g as [[z|x|n]|rows]; cbn [gw_valid gw_enc] in Hv, He; try discriminate.
  - (* address octets *)
    apply Ok_inj in He. subst b.
    apply orb_prop in Hv as [Hv|Hv]; apply andb_prop in Hv as [Hg Hl];
      apply Z.eqb_eq in Hg; apply Nat.eqb_eq in Hl; subst gt.
    + cbn [Z.eqb]. rewrite <- Hl. rewrite gb_at. reflexivity.
    + cbn [Z.eqb]. rewrite <- Hl. rewrite gb_at. reflexivity.
  - (* name *)
    apply andb_prop in Hv as [Hg Hn]. apply Z.eqb_eq in Hg. subst gt. cbn [Z.eqb].
    rewrite (hname_none true n b A R P); [reflexivity| |exact He].
    unfold nok_none. unfold name_ok in Hn. destruct (validate_labels n) as [[]| |]; [reflexivity|discriminate|discriminate].
  - (* none *)
    destruct rows; [|discriminate]. apply Z.eqb_eq in Hv. subst gt. cbn [Z.eqb].
    apply Ok_inj in He. subst b. cbn [length]. rewrite Nat.add_0_r. reflexivity.
Qed.

Lemma gw_rt' : forall W endp cur gt g b A R P,
  W = A ++ b ++ R ++ P -> endp = (length A + length b + length R)%nat -> cur = length A ->
  gw_valid gt g = true -> gw_enc None g = Ok b ->
  gw_dec W None gt endp cur = Ok (g, (length A + length b)%nat).
Proof. intros; subst. apply gw_rt; assumption. Qed.

Lemma u8_ok_range : forall z, u8_ok z = true -> 0 <= z < pow256 1.
Proof. intros z H. unfold u8_ok in H. rewrite pow256_1. lia. Qed.

(* ------------------------------------------------------------------ IPSECKEY *)
Theorem ipseckey_roundtrip_thm : forall vs b A P,
  hand_encode_rdata HIpseckey None vs = Ok b ->
  hand_decode_rdata HIpseckey None (A ++ b ++ P) (length A) (length b) = Ok vs.
Proof.
  intros vs b A P He. unfold hand_encode_rdata in He. cbn [hand_valid hand_enc] in He.
  destruct (ipseckey_valid vs) eqn:Hv; [|discriminate].
  unfold ipseckey_valid in Hv.
  destruct vs as [|[[prec| | ]|] [|[[gt | | ]|] [|[[alg | | ]|] [|gw [|[[ | key | ]|] [|]]]]]]; try discriminate.
  cbn [ipseckey_enc] in He.
  apply andb_prop in Hv as [Hv Hgw]. rewrite Hv in He.
  apply andb_prop in Hv as [Hv Ha]. apply andb_prop in Hv as [Hp Hg].
  inv_bind He. apply Ok_inj in He. subst b. rename x into g.
  unfold hand_decode_rdata.
  repeat match goal with |- context [Nat.ltb ?a ?b] =>
    destruct (Nat.ltb_spec a b) as [Hx|_]; [exfalso; rewrite ?app_length in Hx; lia|] end.
  cbv zeta. cbn [hand_dec hand_valid]. unfold ipseckey_dec.
  set (b1 := be_encode 1 prec). set (b2 := be_encode 1 gt). set (b3 := be_encode 1 alg).
  assert (L1 : length b1 = 1%nat) by apply be_encode_length.
  assert (L2 : length b2 = 1%nat) by apply be_encode_length.
  assert (L3 : length b3 = 1%nat) by apply be_encode_length.
  rewrite (get_u_at _ _ _ 1 prec A (b2 ++ b3 ++ g ++ key) P)
    by (try (subst b1 b2 b3; list_eq'); try (apply u8_ok_range; assumption); rewrite ?app_length; lia).
  cbn [bind fst snd].
  rewrite (get_u_at _ _ _ 1 gt (A ++ b1) (b3 ++ g ++ key) P)
    by (try (subst b1 b2 b3; list_eq'); try (apply u8_ok_range; assumption); rewrite ?app_length; lia).
  cbn [bind fst snd].
  rewrite (get_u_at _ _ _ 1 alg ((A ++ b1) ++ b2) (g ++ key) P)
    by (try (subst b1 b2 b3; list_eq'); try (apply u8_ok_range; assumption); rewrite ?app_length; lia).
  cbn [bind fst snd].
  rewrite (gw_rt' _ _ _ gt gw g (((A ++ b1) ++ b2) ++ b3) key P)
    by (try assumption; try (subst b1 b2 b3; list_eq'); rewrite ?app_length; lia).
  cbn [bind fst snd].
  rewrite (gb_at' _ _ _ _ ((((A ++ b1) ++ b2) ++ b3) ++ g) key [] P)
    by (try (subst b1 b2 b3; list_eq'); rewrite ?app_length; cbn [length]; lia).
  cbn [bind fst snd].
  assert (Hval : ipseckey_valid [VS (VI prec); VS (VI gt); VS (VI alg); gw; VS (VB key)] = true).
  { unfold ipseckey_valid. rewrite Hp, Hg, Ha, Hgw. reflexivity. }
  rewrite Hval. cbn [negb].
  replace (length ((((A ++ b1) ++ b2) ++ b3) ++ g) + length key)%nat
    with (length A + length (b1 ++ b2 ++ b3 ++ g ++ key))%nat by (rewrite ?app_length; lia).
  rewrite Nat.eqb_refl. reflexivity.
Qed.

(* ------------------------------------------------------------------ AMTRELAY *)
Theorem amtrelay_roundtrip_thm : forall vs b A P,
  hand_encode_rdata HAmtrelay None vs = Ok b ->
  hand_decode_rdata HAmtrelay None (A ++ b ++ P) (length A) (length b) = Ok vs.
Proof.
  intros vs b A P He. unfold hand_encode_rdata in He. cbn [hand_valid hand_enc] in He.
  destruct (amtrelay_valid vs) eqn:Hv; [|discriminate].
  unfold amtrelay_valid in Hv.
  destruct vs as [|[[prec| | ]|] [|[[d | | ]|] [|[[ty | | ]|] [|gw [|]]]]]; try discriminate.
  cbn [amtrelay_enc] in He.
  apply andb_prop in Hv as [Hv Hgw]. apply andb_prop in Hv as [Hv Ht]. apply andb_prop in Hv as [Hp Hd].
  (* the relay type of a valid gateway is 0..3 *)
  assert (Hty : 0 <= ty <= 3).
  { destruct gw as [[z|x|n]|rows]; cbn [gw_valid] in Hgw; try discriminate.
    - apply orb_prop in Hgw as [H|H]; apply andb_prop in H as [H _]; lia.
    - apply andb_prop in Hgw as [H _]. lia.
    - destruct rows; [lia|discriminate]. }
  assert (Hdd : d = 0 \/ d = 1) by lia.
  assert (Hu : u8_ok (ty + 128 * d) = true) by (unfold u8_ok; lia).
  rewrite Hp, Hu in He. cbn [andb] in He.
  inv_bind He. apply Ok_inj in He. subst b. rename x into g.
  unfold hand_decode_rdata.
  repeat match goal with |- context [Nat.ltb ?a ?b] =>
    destruct (Nat.ltb_spec a b) as [Hx|_]; [exfalso; rewrite ?app_length in Hx; lia|] end.
  cbv zeta. cbn [hand_dec hand_valid]. unfold amtrelay_dec.
  set (b1 := be_encode 1 prec). set (b2 := be_encode 1 (ty + 128 * d)).
  assert (L1 : length b1 = 1%nat) by apply be_encode_length.
  assert (L2 : length b2 = 1%nat) by apply be_encode_length.
  rewrite (get_u_at _ _ _ 1 prec A (b2 ++ g) P)
    by (try (subst b1 b2; list_eq'); try (apply u8_ok_range; assumption); rewrite ?app_length; lia).
  cbn [bind fst snd].
  rewrite (get_u_at _ _ _ 1 (ty + 128 * d) (A ++ b1) g P)
    by (try (subst b1 b2; list_eq'); try (apply u8_ok_range; assumption); rewrite ?app_length; lia).
  cbn [bind fst snd].
  replace ((ty + 128 * d) mod 128) with ty by lia.
  replace ((ty + 128 * d) / 128) with d by lia.
  rewrite (gw_rt' _ _ _ ty gw g ((A ++ b1) ++ b2) [] P)
    by (try assumption; try (subst b1 b2; list_eq'); rewrite ?app_length; cbn [length]; lia).
  cbn [bind fst snd].
  assert (Hval : amtrelay_valid [VS (VI prec); VS (VI d); VS (VI ty); gw] = true).
  { unfold amtrelay_valid. rewrite Hp, Hd, Ht, Hgw. reflexivity. }
  rewrite Hval. cbn [negb].
  replace (length ((A ++ b1) ++ b2) + length g)%nat
    with (length A + length (b1 ++ b2 ++ g))%nat by (rewrite ?app_length; lia).
  rewrite Nat.eqb_refl. reflexivity.
Qed.

(* ------------------------------------------------------------------ APL *)
Lemma drop_zeros_spec : forall r, exists k, r = repeat 0 k ++ drop_zeros r.
Proof.
  induction r as [|x r IH]; [exists 0%nat; reflexivity|].
  destruct (Z.eq_dec x 0) as [->|Hx].
  - destruct IH as [k Hk]. exists (S k). cbn [drop_zeros repeat app]. f_equal. exact Hk.
  - exists 0%nat. cbn [repeat app]. destruct x; try reflexivity. contradiction.
Qed.

Lemma rev_repeat {A} (x : A) k : rev (repeat x k) = repeat x k.
Proof.
  induction k; [reflexivity|]. cbn [repeat rev]. rewrite IHk.
  clear. induction k; [reflexivity|]. cbn [repeat app]. f_equal. exact IHk.
Qed.

Lemma strip0_spec : forall b, exists k, b = strip0 b ++ repeat 0 k.
Proof.
  intros b. destruct (drop_zeros_spec (rev b)) as [k Hk]. exists k. unfold strip0.
  rewrite <- (rev_involutive b) at 1. rewrite Hk at 1. rewrite rev_app_distr, rev_repeat. reflexivity.
Qed.

Lemma pad_strip0 : forall b, pad_to (length b) (strip0 b) = b.
Proof.
  intros b. destruct (strip0_spec b) as [k Hk]. unfold pad_to.
  assert (length b = length (strip0 b) + k)%nat by (rewrite Hk at 1; rewrite app_length, repeat_length; reflexivity).
  replace (length b - length (strip0 b))%nat with k by lia. symmetry. exact Hk.
Qed.

Lemma strip0_length : forall b, (length (strip0 b) <= length b)%nat.
Proof. intros b. destruct (strip0_spec b) as [k Hk]. rewrite Hk at 2. rewrite app_length. lia. Qed.

Lemma strip0_full : forall b, length (strip0 b) = length b -> strip0 b = b.
Proof.
  intros b H. destruct (strip0_spec b) as [k Hk].
  assert (k = 0%nat) by (rewrite Hk in H at 2; rewrite app_length, repeat_length in H; lia).
  subst k. cbn [repeat] in Hk. rewrite app_nil_r in Hk. symmetry. exact Hk.
Qed.

(* values that the codec does not normalise: for unknown address families the address has
   no trailing zero octets (for families 1 and 2 the value is the full 4/16 octets) *)
Definition apl_item_canon (r : list sval) : Prop :=
  match r with
  | [VI fam; VI _; VB addr; VI _] => fam = 1 \/ fam = 2 \/ strip0 addr = addr
  | _ => True
  end.

Lemma apl_item_rt : forall r b A R P,
  apl_item_valid r = true -> apl_item_canon r -> apl_item_enc r = Ok b ->
  apl_item_dec (A ++ b ++ R ++ P) (length A + length b + length R) (length A)
  = Ok (r, (length A + length b)%nat).
Proof.
  intros r b A R P Hv Hc He.
  destruct r as [|[fam| | ] [|[neg| | ] [|[ |addr| ] [|[prefix| | ] [|]]]]]; try discriminate.
  cbn [apl_item_valid] in Hv. cbn [apl_item_enc] in He. cbn [apl_item_canon] in Hc.
  destruct ((zlen (strip0 addr) <? 128) && (0 <=? fam) && (fam <? 65536) && u8_ok prefix) eqn:Hr; [|discriminate].
  apply Ok_inj in He. subst b.
  apply andb_prop in Hr as [Hr Hp]. apply andb_prop in Hr as [Hr Hf2]. apply andb_prop in Hr as [Hl Hf1].
  apply andb_prop in Hv as [Hv Hfam]. apply andb_prop in Hv as [Hv Hp0]. apply andb_prop in Hv as [Hv Hneg].
  set (a := strip0 addr) in *.
  pose proof (zlen_nonneg a) as Ha0.
  assert (Hn : neg = 0 \/ neg = 1) by lia.
  unfold apl_item_dec.
  set (b1 := be_encode 2 fam). set (b2 := be_encode 1 prefix). set (b3 := be_encode 1 (zlen a + 128 * neg)).
  assert (L1 : length b1 = 2%nat) by apply be_encode_length.
  assert (L2 : length b2 = 1%nat) by apply be_encode_length.
  assert (L3 : length b3 = 1%nat) by apply be_encode_length.
  rewrite (get_u_at _ _ _ 2 fam A (b2 ++ b3 ++ a ++ R) P)
    by (try (subst b1 b2 b3; list_eq'); try (rewrite pow256_2; lia); rewrite ?app_length; lia).
  cbn [bind fst snd].
  rewrite (get_u_at _ _ _ 1 prefix (A ++ b1) (b3 ++ a ++ R) P)
    by (try (subst b1 b2 b3; list_eq'); try (apply u8_ok_range; assumption); rewrite ?app_length; lia).
  cbn [bind fst snd].
  rewrite (get_u_at _ _ _ 1 (zlen a + 128 * neg) ((A ++ b1) ++ b2) (a ++ R) P)
    by (try (subst b1 b2 b3; list_eq'); try (rewrite pow256_1; lia); rewrite ?app_length; lia).
  cbn [bind fst snd].
  assert (Hneg' : (if zlen a + 128 * neg >? 127 then 1 else 0) = neg)
    by (destruct (zlen a + 128 * neg >? 127) eqn:E; lia).
  assert (Hlen' : (if zlen a + 128 * neg >? 127 then zlen a + 128 * neg - 128 else zlen a + 128 * neg) = zlen a)
    by (destruct (zlen a + 128 * neg >? 127) eqn:E; lia).
  rewrite Hneg', Hlen'.
  replace (Z.to_nat (zlen a)) with (length a) by (unfold zlen; lia).
  rewrite (gb_at' _ _ _ _ (((A ++ b1) ++ b2) ++ b3) a R P)
    by (try (subst b1 b2 b3; list_eq'); rewrite ?app_length; lia).
  cbn [bind fst snd].
  assert (Haddr : (if fam =? 1 then if Nat.ltb (length a) 4 then pad_to 4 a else a
                   else if fam =? 2 then if Nat.ltb (length a) 16 then pad_to 16 a else a else a) = addr).
  { pose proof (strip0_length addr) as Hle. fold a in Hle.
    destruct (fam =? 1) eqn:E1.
    - apply andb_prop in Hfam as [Hlen _]. apply Nat.eqb_eq in Hlen.
      destruct (Nat.ltb_spec (length a) 4).
      + rewrite <- Hlen. apply pad_strip0.
      + apply strip0_full. fold a. lia.
    - destruct (fam =? 2) eqn:E2.
      + apply andb_prop in Hfam as [Hlen _]. apply Nat.eqb_eq in Hlen.
        destruct (Nat.ltb_spec (length a) 16).
        * rewrite <- Hlen. apply pad_strip0.
        * apply strip0_full. fold a. lia.
      + destruct Hc as [Hc|[Hc|Hc]]; [lia|lia|exact Hc]. }
  rewrite Haddr. f_equal. f_equal. rewrite ?app_length. lia.
Qed.

Lemma apl_item_enc_len : forall r b, apl_item_enc r = Ok b -> (4 <= length b)%nat.
Proof.
  intros r b He.
  destruct r as [|[fam| | ] [|[neg| | ] [|[ |addr| ] [|[prefix| | ] [|]]]]]; try discriminate.
  cbn [apl_item_enc] in He.
  match type of He with context [if ?c then _ else _] => destruct c end; [|discriminate].
  apply Ok_inj in He. subst b. rewrite !app_length, !be_encode_length. lia.
Qed.

Lemma apl_items_rt : forall items b fuel A P,
  forallb apl_item_valid items = true -> Forall apl_item_canon items ->
  apl_items_enc items = Ok b -> (length b < fuel)%nat ->
  apl_items_dec fuel (A ++ b ++ P) (length A + length b) (length A) = Ok (items, (length A + length b)%nat).
Proof.
  induction items as [|r rr IH]; intros b fuel A P Hv Hc He Hf; cbn [apl_items_enc] in He.
  - apply Ok_inj in He. subst b. destruct fuel; cbn [apl_items_dec length]; rewrite Nat.add_0_r, Nat.leb_refl; reflexivity.
  - inv_bind He. inv_bind He. apply Ok_inj in He. subst b. rename x into b1, x0 into b2.
    cbn [forallb] in Hv. apply andb_prop in Hv as [Hv1 Hv2]. inversion Hc as [|? ? Hc1 Hc2]; subst.
    pose proof (apl_item_enc_len r b1 E) as Hb1.
    destruct fuel as [|fuel']; [lia|]. cbn [apl_items_dec].
    destruct (Nat.leb_spec (length A + length (b1 ++ b2)) (length A)) as [Hle|_]; [rewrite app_length in Hle; lia|].
    pose proof (apl_item_rt r b1 A b2 P Hv1 Hc1 E) as Hi.
    replace (A ++ b1 ++ b2 ++ P) with (A ++ (b1 ++ b2) ++ P) in Hi by list_eq'.
    replace (length A + length b1 + length b2)%nat with (length A + length (b1 ++ b2))%nat in Hi by (rewrite app_length; lia).
    rewrite Hi. cbn [bind fst snd]. rewrite Hv1. cbn [negb].
    assert (Hf2 : (length b2 < fuel')%nat) by (rewrite app_length in Hf; lia).
    pose proof (IH b2 fuel' (A ++ b1) P Hv2 Hc2 E0 Hf2) as Hr.
    replace ((A ++ b1) ++ b2 ++ P) with (A ++ (b1 ++ b2) ++ P) in Hr by list_eq'.
    replace (length (A ++ b1) + length b2)%nat with (length A + length (b1 ++ b2))%nat in Hr by (rewrite !app_length; lia).
    replace (length (A ++ b1)) with (length A + length b1)%nat in Hr by (rewrite app_length; reflexivity).
    rewrite Hr. reflexivity.
Qed.

Definition apl_canon (vs : list val) : Prop :=
  match vs with [VL items] => Forall apl_item_canon items | _ => True end.

Theorem apl_roundtrip_thm : forall vs b A P,
  apl_canon vs -> hand_encode_rdata HApl None vs = Ok b ->
  hand_decode_rdata HApl None (A ++ b ++ P) (length A) (length b) = Ok vs.
Proof.
  intros vs b A P Hc He. unfold hand_encode_rdata in He. cbn [hand_valid hand_enc] in He.
  destruct (apl_valid vs) eqn:Hv; [|discriminate].
  unfold apl_valid in Hv. destruct vs as [|[|items] [|]]; try discriminate.
  cbn [apl_enc] in He. cbn [apl_canon] in Hc.
  unfold hand_decode_rdata.
  repeat match goal with |- context [Nat.ltb ?a ?b] =>
    destruct (Nat.ltb_spec a b) as [Hx|_]; [exfalso; rewrite ?app_length in Hx; lia|] end.
  cbv zeta. cbn [hand_dec hand_valid]. unfold apl_dec.
  replace (length A + length b - length A)%nat with (length b) by lia.
  rewrite (apl_items_rt items b (S (length b)) A P) by (auto; lia).
  cbn [bind fst snd]. unfold apl_valid. rewrite Hv. cbn [negb]. rewrite Nat.eqb_refl. reflexivity.
Qed.

(* decoding normalises: the item that comes out of the wire is always canonical ... *)
(* trailing zeros in the address of an unknown family are the one normalisation: *)
Example apl_trailing_zero_normalised :
  let v := [VL [[VI 3; VI 0; VB [171; 0]; VI 8]]] in
  exists b, hand_encode_rdata HApl None v = Ok b /\
            hand_decode_rdata HApl None b 0 (length b) = Ok [VL [[VI 3; VI 0; VB [171]; VI 8]]] /\
            hand_encode_rdata HApl None [VL [[VI 3; VI 0; VB [171]; VI 8]]] = Ok b.
Proof. eexists. repeat split; vm_compute; reflexivity. Qed.

(* ------------------------------------------------------------------ SVCB / HTTPS *)
Lemma svcb_params_rt : forall ps b fuel A P prior,
  forallb svcb_param_row_ok ps = true -> strictly_asc prior (svcb_keys ps) = true ->
  svcb_params_enc ps = Ok b -> (length b < fuel)%nat ->
  svcb_params_dec fuel (A ++ b ++ P) (length A + length b) (length A) prior
  = Ok (ps, (length A + length b)%nat).
Proof.
  induction ps as [|r rr IH]; intros b fuel A P prior Hv Hasc He Hf; cbn [svcb_params_enc] in He.
  - apply Ok_inj in He. subst b. destruct fuel; cbn [svcb_params_dec length]; rewrite Nat.add_0_r, Nat.leb_refl; reflexivity.
  - cbn [forallb] in Hv. apply andb_prop in Hv as [Hr Hv2].
    destruct r as [|[k| | ] [|[ |raw| ] [|]]]; cbn [svcb_param_row_ok] in Hr; try discriminate.
    apply andb_prop in Hr as [Hr Hok]. apply andb_prop in Hr as [Hr Hlen]. apply andb_prop in Hr as [Hk0 Hk1].
    destruct ((0 <=? k) && (k <? 65536) && (zlen raw <? 65536)) eqn:Hrng; [|discriminate].
    inv_bind He. apply Ok_inj in He. subst b. rename x into rest.
    cbn [svcb_keys flat_map app] in Hasc. fold (svcb_keys rr) in Hasc.
    cbn [strictly_asc] in Hasc. apply andb_prop in Hasc as [Hpk Hasc2].
    pose proof (zlen_nonneg raw) as Hr0.
    set (b1 := be_encode 2 k) in *. set (b2 := be_encode 2 (zlen raw)) in *.
    assert (L1 : length b1 = 2%nat) by apply be_encode_length.
    assert (L2 : length b2 = 2%nat) by apply be_encode_length.
    destruct fuel as [|fuel']; [lia|]. cbn [svcb_params_dec].
    destruct (Nat.leb_spec (length A + length (b1 ++ b2 ++ raw ++ rest)) (length A)) as [Hle|_];
      [rewrite !app_length in Hle; lia|].
    rewrite (get_u_at _ _ _ 2 k A (b2 ++ raw ++ rest) P)
      by (try (subst b1 b2; list_eq'); try (rewrite pow256_2; lia); rewrite ?app_length; lia).
    cbn [bind fst snd].
    destruct (k <? prior) eqn:Ekp; [lia|].
    rewrite (get_u_at _ _ _ 2 (zlen raw) (A ++ b1) (raw ++ rest) P)
      by (try (subst b1 b2; list_eq'); try (rewrite pow256_2; lia); rewrite ?app_length; lia).
    cbn [bind fst snd].
    replace (Z.to_nat (zlen raw)) with (length raw) by (unfold zlen; lia).
    rewrite (gb_at' _ _ _ _ ((A ++ b1) ++ b2) raw rest P)
      by (try (subst b1 b2; list_eq'); rewrite ?app_length; lia).
    cbn [bind fst snd]. rewrite Hok. cbn [negb].
    assert (Hf2 : (length rest < fuel')%nat) by (rewrite !app_length in Hf; lia).
    pose proof (IH rest fuel' (((A ++ b1) ++ b2) ++ raw) P k Hv2 Hasc2 E Hf2) as Hrec.
    replace ((((A ++ b1) ++ b2) ++ raw) ++ rest ++ P) with (A ++ (b1 ++ b2 ++ raw ++ rest) ++ P) in Hrec by list_eq'.
    replace (length (((A ++ b1) ++ b2) ++ raw) + length rest)%nat
      with (length A + length (b1 ++ b2 ++ raw ++ rest))%nat in Hrec by (rewrite ?app_length; lia).
    replace (length (((A ++ b1) ++ b2) ++ raw)) with (length ((A ++ b1) ++ b2) + length raw)%nat in Hrec
      by (rewrite ?app_length; lia).
    rewrite Hrec. reflexivity.
Qed.

Lemma dedupe_last_asc : forall ps prior,
  forallb svcb_param_row_ok ps = true -> strictly_asc prior (svcb_keys ps) = true -> dedupe_last ps = ps.
Proof.
  induction ps as [|r rr IH]; intros prior Hv Hasc; [reflexivity|].
  cbn [forallb] in Hv. apply andb_prop in Hv as [Hr Hv2].
  destruct r as [|[k| | ] [|[ |raw| ] [|]]]; cbn [svcb_param_row_ok] in Hr; try discriminate.
  cbn [svcb_keys flat_map app] in Hasc. fold (svcb_keys rr) in Hasc.
  cbn [strictly_asc] in Hasc. apply andb_prop in Hasc as [_ Hasc2].
  destruct rr as [|r2 rr'].
  - reflexivity.
  - pose proof Hv2 as Hv2'. cbn [forallb] in Hv2'. apply andb_prop in Hv2' as [Hr2 _].
    destruct r2 as [|[k2| | ] [|[ |raw2| ] [|]]]; cbn [svcb_param_row_ok] in Hr2; try discriminate.
    pose proof Hasc2 as Hasc2'. cbn [svcb_keys flat_map app strictly_asc] in Hasc2'.
    apply andb_prop in Hasc2' as [Hkk _].
    change (dedupe_last ([VI k; VB raw] :: [VI k2; VB raw2] :: rr'))
      with (if k =? k2 then dedupe_last ([VI k2; VB raw2] :: rr') else [VI k; VB raw] :: dedupe_last ([VI k2; VB raw2] :: rr')).
    destruct (k =? k2) eqn:E; [lia|]. f_equal. eapply IH; eauto.
Qed.

(* AliasMode (priority 0) admits no parameters on the wire: the reader refuses them although the
   constructor does not - such values are outside the statement *)
Theorem svcb_roundtrip_thm : forall prio target ps b A P,
  (prio <> 0 \/ ps = []) ->
  hand_encode_rdata HSvcb None [VS (VI prio); VS (VN target); VL ps] = Ok b ->
  hand_decode_rdata HSvcb None (A ++ b ++ P) (length A) (length b) = Ok [VS (VI prio); VS (VN target); VL ps].
Proof.
  intros prio target ps b A P Halias He. unfold hand_encode_rdata in He. cbn [hand_valid hand_enc] in He.
  destruct (svcb_valid [VS (VI prio); VS (VN target); VL ps]) eqn:Hv; [|discriminate].
  pose proof Hv as Hv0. unfold svcb_valid in Hv.
  apply andb_prop in Hv as [Hv Hrec]. apply andb_prop in Hv as [Hv Hasc]. apply andb_prop in Hv as [Hv Hrows].
  apply andb_prop in Hv as [Hv Hname]. apply andb_prop in Hv as [Hp0 Hp1].
  cbn [svcb_enc] in He.
  destruct ((0 <=? prio) && (prio <? 65536)) eqn:Hrng; [|discriminate].
  inv_bind He. inv_bind He. apply Ok_inj in He. subst b. rename x into t, x0 into p.
  unfold hand_decode_rdata.
  repeat match goal with |- context [Nat.ltb ?a ?b] =>
    destruct (Nat.ltb_spec a b) as [Hx|_]; [exfalso; rewrite ?app_length in Hx; lia|] end.
  cbv zeta. cbn [hand_dec hand_valid]. unfold svcb_dec.
  set (b1 := be_encode 2 prio). assert (L1 : length b1 = 2%nat) by apply be_encode_length.
  rewrite (get_u_at _ _ _ 2 prio A (t ++ p) P)
    by (try (subst b1; list_eq'); try (rewrite pow256_2; lia); rewrite ?app_length; lia).
  cbn [bind fst snd].
  assert (Hnok : nok_none true target).
  { unfold nok_none. unfold name_ok in Hname. destruct (validate_labels target) as [[]| |]; [reflexivity|discriminate|discriminate]. }
  pose proof (hname_none true target t (A ++ b1) p P Hnok E) as Hn.
  replace ((A ++ b1) ++ t ++ p ++ P) with (A ++ (b1 ++ t ++ p) ++ P) in Hn by list_eq'.
  replace (length (A ++ b1) + length t + length p)%nat with (length A + length (b1 ++ t ++ p))%nat in Hn
    by (rewrite ?app_length; lia).
  replace (length (A ++ b1)) with (length A + 2)%nat in Hn by (rewrite app_length; lia).
  rewrite Hn. cbn [bind fst snd].
  assert (Hplen : ps = [] -> p = []).
  { intros ->. cbn in E0. apply Ok_inj in E0. auto. }
  assert (Hal : (prio =? 0) && negb (Nat.eqb (length A + length (b1 ++ t ++ p) - (length A + 2 + length t)) 0) = false).
  { destruct Halias as [Hne|Hnil].
    - destruct (prio =? 0) eqn:E1; [lia|reflexivity].
    - rewrite (Hplen Hnil). rewrite !app_length. cbn [length].
      replace (length A + (length b1 + (length t + 0)) - (length A + 2 + length t))%nat with 0%nat by lia.
      cbn. apply andb_false_r. }
  rewrite Hal.
  pose proof (svcb_params_rt ps p (S (length p)) ((A ++ b1) ++ t) P (-1) Hrows Hasc E0 ltac:(lia)) as Hps.
  replace (((A ++ b1) ++ t) ++ p ++ P) with (A ++ (b1 ++ t ++ p) ++ P) in Hps by list_eq'.
  replace (length ((A ++ b1) ++ t) + length p)%nat with (length A + length (b1 ++ t ++ p))%nat in Hps
    by (rewrite ?app_length; lia).
  replace (length ((A ++ b1) ++ t)) with (length A + 2 + length t)%nat in Hps by (rewrite ?app_length; lia).
  replace (length A + length (b1 ++ t ++ p) - (length A + 2 + length t))%nat with (length p)
    by (rewrite ?app_length; lia).
  rewrite Hps. cbn [bind fst snd].
  rewrite (dedupe_last_asc ps (-1) Hrows Hasc).
  rewrite Hv0. cbn [negb]. rewrite Nat.eqb_refl. reflexivity.
Qed.

(* ------------------------------------------------------------------ LOC *)
(* sizes that the one-octet mantissa/exponent form can express: 0 and b * 10^e, 1<=b<=9, 0<=e<=9 *)
Definition loc_sizes : list Z :=
  0 :: flat_map (fun e => map (fun b => b * 10 ^ e) [1; 2; 3; 4; 5; 6; 7; 8; 9]) [0; 1; 2; 3; 4; 5; 6; 7; 8; 9].

Definition size_rt (x : Z) : bool :=
  match loc_encode_size x with
  | Ok b => (0 <=? b) && (b <? 256) && match loc_decode_size b with Ok y => y =? x | _ => false end
  | _ => false
  end.

Lemma loc_sizes_rt : forallb size_rt loc_sizes = true.
Proof. vm_compute. reflexivity. Qed.

Lemma loc_size_rt : forall x, In x loc_sizes ->
  exists b, loc_encode_size x = Ok b /\ 0 <= b < 256 /\ loc_decode_size b = Ok x.
Proof.
  intros x Hin. pose proof loc_sizes_rt as H. rewrite forallb_forall in H. specialize (H x Hin).
  unfold size_rt in H. destruct (loc_encode_size x) as [b| |]; try discriminate.
  apply andb_prop in H as [H Hd]. apply andb_prop in H as [H0 H1].
  destruct (loc_decode_size b) as [y| |] eqn:Ed; try discriminate. apply Z.eqb_eq in Hd. subst y.
  exists b. split; [reflexivity|]. split; [lia|exact Ed].
Qed.

(* a legal, canonical coordinate: degrees/minutes/seconds/milliseconds within the limit,
   hemisphere +1 for the zero coordinate (the reader cannot tell -0 from +0) *)
Definition coord_canon (lim : Z) (c : list sval) : Prop :=
  match c with
  | [VI d; VI m; VI s; VI ms; VI sg] =>
      0 <= d /\ 0 <= m <= 59 /\ 0 <= s <= 59 /\ 0 <= ms <= 999 /\ (sg = 1 \/ sg = -1) /\
      d * 3600000 + m * 60000 + s * 1000 + ms <= lim * 3600000 /\
      (d * 3600000 + m * 60000 + s * 1000 + ms = 0 -> sg = 1)
  | _ => False
  end.

Lemma coord_rt : forall lim c, 0 <= lim <= 180 -> coord_canon lim c ->
  coord_of_wire (coord_to_wire c) = c /\
  two31 - lim * 3600000 <= coord_to_wire c <= two31 + lim * 3600000.
Proof.
  intros lim c Hl Hc.
  destruct c as [|[d| | ] [|[m| | ] [|[s| | ] [|[ms| | ] [|[sg| | ] [|]]]]]]; cbn [coord_canon] in Hc; try contradiction.
  destruct Hc as (Hd & Hm & Hs & Hms & Hsg & Hlim & Hz).
  cbn [coord_to_wire]. unfold coord_of_wire, two31 in *.
  set (T := d * 3600000 + m * 60000 + s * 1000 + ms) in *.
  assert (HT : 0 <= T) by (unfold T; lia).
  destruct Hsg as [-> | ->].
  - replace (2147483648 + T * 1 >=? 2147483648) with true by lia.
    replace (Z.abs (2147483648 + T * 1 - 2147483648)) with T by lia.
    split; [|lia]. unfold T. repeat f_equal; lia.
  - assert (T <> 0) by (intro E; specialize (Hz E); lia).
    replace (2147483648 + T * -1 >=? 2147483648) with false by lia.
    replace (Z.abs (2147483648 + T * -1 - 2147483648)) with T by lia.
    split; [|lia]. unfold T. repeat f_equal; lia.
Qed.

Theorem loc_roundtrip_thm : forall lat lon alt size hp vp b A P,
  coord_canon 90 lat -> coord_canon 180 lon ->
  0 <= alt + 10000000 < 4294967296 ->
  In size loc_sizes -> In hp loc_sizes -> In vp loc_sizes ->
  hand_encode_rdata HLoc None [VL [lat]; VL [lon]; VS (VI alt); VS (VI size); VS (VI hp); VS (VI vp)] = Ok b ->
  hand_decode_rdata HLoc None (A ++ b ++ P) (length A) (length b)
  = Ok [VL [lat]; VL [lon]; VS (VI alt); VS (VI size); VS (VI hp); VS (VI vp)].
Proof.
  intros lat lon alt size hp vp b A P Hlat Hlon Halt Hs Hh Hv He.
  unfold hand_encode_rdata in He. cbn [hand_valid hand_enc] in He.
  destruct (loc_valid [VL [lat]; VL [lon]; VS (VI alt); VS (VI size); VS (VI hp); VS (VI vp)]) eqn:Hval; [|discriminate].
  cbn [loc_enc] in He.
  destruct (loc_size_rt size Hs) as (bs & Es & Rs & Ds).
  destruct (loc_size_rt hp Hh) as (bh & Eh & Rh & Dh).
  destruct (loc_size_rt vp Hv) as (bv & Ev & Rv & Dv).
  rewrite Es, Eh, Ev in He. cbn [bind] in He.
  destruct (coord_rt 90 lat ltac:(lia) Hlat) as [Clat Rlat].
  destruct (coord_rt 180 lon ltac:(lia) Hlon) as [Clon Rlon].
  unfold two31 in Rlat, Rlon.
  match type of He with context [if ?c then _ else _] => destruct c eqn:Hr end; [|discriminate].
  apply Ok_inj in He. subst b.
  unfold hand_decode_rdata.
  repeat match goal with |- context [Nat.ltb ?a ?b] =>
    destruct (Nat.ltb_spec a b) as [Hx|_]; [exfalso; rewrite ?app_length in Hx; cbn [length] in Hx; lia|] end.
  cbv zeta. cbn [hand_dec hand_valid]. unfold loc_dec.
  set (la := coord_to_wire lat) in *. set (lo := coord_to_wire lon) in *. set (al := alt + 10000000) in *.
  set (b5 := be_encode 4 la). set (b6 := be_encode 4 lo). set (b7 := be_encode 4 al).
  assert (L5 : length b5 = 4%nat) by apply be_encode_length.
  assert (L6 : length b6 = 4%nat) by apply be_encode_length.
  assert (L7 : length b7 = 4%nat) by apply be_encode_length.
  assert (B1 : forall z, 0 <= z < 256 -> [z] = be_encode 1 z).
  { intros z Hz. unfold be_encode. cbn [app]. f_equal. lia. }
  assert (P4 : pow256 4 = 4294967296) by reflexivity.
  change ([0; bs; bh; bv] ++ b5 ++ b6 ++ b7) with ([0] ++ [bs] ++ [bh] ++ [bv] ++ b5 ++ b6 ++ b7).
  rewrite (B1 0) by lia. rewrite (B1 bs) by lia. rewrite (B1 bh) by lia. rewrite (B1 bv) by lia.
  set (c0 := be_encode 1 0). set (c1 := be_encode 1 bs). set (c2 := be_encode 1 bh). set (c3 := be_encode 1 bv).
  assert (M0 : length c0 = 1%nat) by apply be_encode_length.
  assert (M1 : length c1 = 1%nat) by apply be_encode_length.
  assert (M2 : length c2 = 1%nat) by apply be_encode_length.
  assert (M3 : length c3 = 1%nat) by apply be_encode_length.
  rewrite (get_u_at _ _ _ 1 0 A (c1 ++ c2 ++ c3 ++ b5 ++ b6 ++ b7) P)
    by (try (subst c0 c1 c2 c3 b5 b6 b7; list_eq'); try (rewrite pow256_1; lia); rewrite ?app_length; lia).
  cbn [bind fst snd].
  rewrite (get_u_at _ _ _ 1 bs (A ++ c0) (c2 ++ c3 ++ b5 ++ b6 ++ b7) P)
    by (try (subst c0 c1 c2 c3 b5 b6 b7; list_eq'); try (rewrite pow256_1; lia); rewrite ?app_length; lia).
  cbn [bind fst snd].
  rewrite (get_u_at _ _ _ 1 bh ((A ++ c0) ++ c1) (c3 ++ b5 ++ b6 ++ b7) P)
    by (try (subst c0 c1 c2 c3 b5 b6 b7; list_eq'); try (rewrite pow256_1; lia); rewrite ?app_length; lia).
  cbn [bind fst snd].
  rewrite (get_u_at _ _ _ 1 bv (((A ++ c0) ++ c1) ++ c2) (b5 ++ b6 ++ b7) P)
    by (try (subst c0 c1 c2 c3 b5 b6 b7; list_eq'); try (rewrite pow256_1; lia); rewrite ?app_length; lia).
  cbn [bind fst snd].
  rewrite (get_u_at _ _ _ 4 la ((((A ++ c0) ++ c1) ++ c2) ++ c3) (b6 ++ b7) P)
    by (try (subst c0 c1 c2 c3 b5 b6 b7; list_eq'); try (rewrite P4; lia); rewrite ?app_length; lia).
  cbn [bind fst snd].
  rewrite (get_u_at _ _ _ 4 lo (((((A ++ c0) ++ c1) ++ c2) ++ c3) ++ b5) b7 P)
    by (try (subst c0 c1 c2 c3 b5 b6 b7; list_eq'); try (rewrite P4; lia); rewrite ?app_length; lia).
  cbn [bind fst snd].
  rewrite (get_u_at _ _ _ 4 al ((((((A ++ c0) ++ c1) ++ c2) ++ c3) ++ b5) ++ b6) [] P)
    by (try (subst c0 c1 c2 c3 b5 b6 b7; list_eq'); try (rewrite P4; lia); rewrite ?app_length; cbn [length]; lia).
  cbn [bind fst snd]. cbn [Z.eqb negb].
  unfold two31.
  replace ((la <? 2147483648 - 90 * 3600000) || (la >? 2147483648 + 90 * 3600000)) with false by lia.
  replace ((lo <? 2147483648 - 180 * 3600000) || (lo >? 2147483648 + 180 * 3600000)) with false by lia.
  rewrite Ds, Dh, Dv. cbn [bind].
  subst la lo. rewrite Clat, Clon.
  replace (al - 10000000) with alt by (unfold al; lia).
  cbn [bind fst snd]. rewrite Hval. cbn [negb].
  match goal with |- context [Nat.eqb ?a ?b] => replace (Nat.eqb a b) with true
    by (symmetry; apply Nat.eqb_eq; rewrite ?app_length; cbn [length]; lia) end.
  reflexivity.
Qed.

(* ------------------------------------------------------------------ OPT *)
Lemma zlist_eqb_eq : forall a b, zlist_eqb a b = true -> a = b.
Proof.
  induction a as [|x a IH]; intros [|y b] H; cbn in H; try discriminate; [reflexivity|].
  apply andb_prop in H as [H1 H2]. apply Z.eqb_eq in H1. f_equal; auto.
Qed.

Lemma opt_items_rt : forall items b fuel A P,
  forallb opt_row_ok items = true -> opt_items_enc items = Ok b -> (length b < fuel)%nat ->
  opt_items_dec fuel (A ++ b ++ P) (length A + length b) (length A) = Ok (items, (length A + length b)%nat).
Proof.
  induction items as [|r rr IH]; intros b fuel A P Hv He Hf; cbn [opt_items_enc] in He.
  - apply Ok_inj in He. subst b. destruct fuel; cbn [opt_items_dec length]; rewrite Nat.add_0_r, Nat.leb_refl; reflexivity.
  - cbn [forallb] in Hv. apply andb_prop in Hv as [Hr Hv2].
    destruct r as [|[ot| | ] [|[ |p| ] [|]]]; cbn [opt_row_ok] in Hr; try discriminate.
    apply andb_prop in Hr as [Hr Hpay]. apply andb_prop in Hr as [Ho0 Ho1].
    destruct ((0 <=? ot) && (ot <? 65536) && (zlen p <? 65536)) eqn:Hrng; [|discriminate].
    inv_bind He. apply Ok_inj in He. subst b. rename x into rest.
    pose proof (zlen_nonneg p) as Hp0.
    set (b1 := be_encode 2 ot) in *. set (b2 := be_encode 2 (zlen p)) in *.
    assert (L1 : length b1 = 2%nat) by apply be_encode_length.
    assert (L2 : length b2 = 2%nat) by apply be_encode_length.
    destruct fuel as [|fuel']; [lia|]. cbn [opt_items_dec].
    destruct (Nat.leb_spec (length A + length (b1 ++ b2 ++ p ++ rest)) (length A)) as [Hle|_];
      [rewrite !app_length in Hle; lia|].
    rewrite (get_u_at _ _ _ 2 ot A (b2 ++ p ++ rest) P)
      by (try (subst b1 b2; list_eq'); try (rewrite pow256_2; lia); rewrite ?app_length; lia).
    cbn [bind fst snd].
    rewrite (get_u_at _ _ _ 2 (zlen p) (A ++ b1) (p ++ rest) P)
      by (try (subst b1 b2; list_eq'); try (rewrite pow256_2; lia); rewrite ?app_length; lia).
    cbn [bind fst snd].
    replace (Z.to_nat (zlen p)) with (length p) by (unfold zlen; lia).
    destruct (Nat.ltb_spec (length A + length (b1 ++ b2 ++ p ++ rest) - (length (A ++ b1) + 2)) (length p)) as [Hx|_];
      [rewrite !app_length in Hx; lia|].
    assert (Hpayload :
      (if ot =? 18
       then match get_name (A ++ (b1 ++ b2 ++ p ++ rest) ++ P) None false (length (A ++ b1) + 2 + length p) (length (A ++ b1) + 2) with
            | Ok (n, c) => if Nat.eqb c (length (A ++ b1) + 2 + length p) then Ok (wire_labels false n) else Lib eFormError
            | Lib e => Lib e
            | Internal e => Internal e
            end
       else do d <- get_bytes (A ++ (b1 ++ b2 ++ p ++ rest) ++ P) (length (A ++ b1) + 2 + length p) (length (A ++ b1) + 2) (length p);
            match opt_norm ot (fst d) with Some q => Ok q | None => Lib eFormError end) = Ok p).
    { unfold opt_payload_ok in Hpay. destruct (ot =? 18) eqn:E18.
      - destruct (NameM.from_wire p 0) as [[n c]| |] eqn:Ef; try discriminate.
        apply andb_prop in Hpay as [Hc Hw]. apply Nat.eqb_eq in Hc. apply zlist_eqb_eq in Hw.
        destruct (from_wire_abs_valid p 0 n c Ef) as [Habs Hval].
        pose proof (hname_none false n p ((A ++ b1) ++ b2) [] (rest ++ P)) as Hn.
        unfold nok_none in Hn. specialize (Hn Hval).
        assert (Htw : NameM.to_wire n None false = Ok p) by (unfold NameM.to_wire; rewrite Habs, Hw; reflexivity).
        specialize (Hn Htw).
        replace (((A ++ b1) ++ b2) ++ p ++ [] ++ rest ++ P) with (A ++ (b1 ++ b2 ++ p ++ rest) ++ P) in Hn by list_eq'.
        replace (length ((A ++ b1) ++ b2) + length p + length (@nil Z))%nat with (length (A ++ b1) + 2 + length p)%nat in Hn
          by (rewrite ?app_length; cbn [length]; lia).
        replace (length ((A ++ b1) ++ b2)) with (length (A ++ b1) + 2)%nat in Hn by (rewrite ?app_length; lia).
        rewrite Hn. rewrite Nat.eqb_refl. rewrite Hw. reflexivity.
      - rewrite (gb_at' _ _ _ _ ((A ++ b1) ++ b2) p [] (rest ++ P))
          by (try (subst b1 b2; list_eq'); rewrite ?app_length; cbn [length]; lia).
        cbn [bind fst snd].
        destruct (opt_norm ot p) as [q|] eqn:En; [|discriminate].
        apply zlist_eqb_eq in Hpay. subst q. reflexivity. }
    rewrite Hpayload. cbn [bind].
    assert (Hf2 : (length rest < fuel')%nat) by (rewrite !app_length in Hf; lia).
    pose proof (IH rest fuel' (((A ++ b1) ++ b2) ++ p) P Hv2 E Hf2) as Hrec.
    replace ((((A ++ b1) ++ b2) ++ p) ++ rest ++ P) with (A ++ (b1 ++ b2 ++ p ++ rest) ++ P) in Hrec by list_eq'.
    replace (length (((A ++ b1) ++ b2) ++ p) + length rest)%nat
      with (length A + length (b1 ++ b2 ++ p ++ rest))%nat in Hrec by (rewrite ?app_length; lia).
    replace (length (((A ++ b1) ++ b2) ++ p)) with (length (A ++ b1) + 2 + length p)%nat in Hrec
      by (rewrite ?app_length; lia).
    rewrite Hrec. reflexivity.
Qed.

Theorem opt_roundtrip_thm : forall vs b A P,
  hand_encode_rdata HOpt None vs = Ok b ->
  hand_decode_rdata HOpt None (A ++ b ++ P) (length A) (length b) = Ok vs.
Proof.
  intros vs b A P He. unfold hand_encode_rdata in He. cbn [hand_valid hand_enc] in He.
  destruct (opt_valid vs) eqn:Hv; [|discriminate].
  unfold opt_valid in Hv. destruct vs as [|[|items] [|]]; try discriminate.
  cbn [opt_enc] in He.
  unfold hand_decode_rdata.
  repeat match goal with |- context [Nat.ltb ?a ?b] =>
    destruct (Nat.ltb_spec a b) as [Hx|_]; [exfalso; rewrite ?app_length in Hx; lia|] end.
  cbv zeta. cbn [hand_dec hand_valid]. unfold opt_dec.
  replace (length A + length b - length A)%nat with (length b) by lia.
  rewrite (opt_items_rt items b (S (length b)) A P) by (auto; lia).
  cbn [bind fst snd]. unfold opt_valid. rewrite Hv. cbn [negb]. rewrite Nat.eqb_refl. reflexivity.
Qed.

(* ================================================================== fixed points (hand codecs) *)
(* second half of the property for IPSECKEY, AMTRELAY and HIP: an accepted octet string yields a
   record whose own encoding exists, decodes to the same record and re-encodes identically *)

Definition gw_abs (g : val) : Prop := match g with VS (VN n) => is_absolute n = true | _ => True end.

Lemma gw_dec_abs : forall w gt e c g c', gw_dec w None gt e c = Ok (g, c') -> gw_abs g.
Proof.
  intros w gt e c g c' H. unfold gw_dec in H.
  destruct (gt =? 0); [injection H as <- _; exact Logic.I|].
  destruct (gt =? 1); [inv_bind H; injection H as <- _; exact Logic.I|].
  destruct (gt =? 2); [inv_bind H; injection H as <- _; exact Logic.I|].
  destruct (gt =? 3); [|discriminate].
  inv_bind H. injection H as <- _. cbn [gw_abs].
  unfold get_name in E. destruct (NameM.from_wire (firstn e w) c) as [[n k]| |] eqn:Ef; try discriminate.
  cbn in E. injection E as <-. cbn [fst]. apply from_wire_abs_valid in Ef. tauto.
Qed.

Lemma gw_enc_total : forall gt g, gw_valid gt g = true -> gw_abs g -> exists b, gw_enc None g = Ok b.
Proof.
  intros gt g Hv Ha. destruct g as [[z|x|n]|rows]; cbn [gw_valid] in Hv; try discriminate; cbn [gw_enc].
  - eauto.
  - cbn in Ha. unfold NameM.to_wire. rewrite Ha. eauto.
  - destruct rows; [eauto|discriminate].
Qed.

Theorem ipseckey_fixed_point_thm : forall wire cur rdlen vs,
  hand_decode_rdata HIpseckey None wire cur rdlen = Ok vs ->
  exists w', hand_encode_rdata HIpseckey None vs = Ok w' /\
             hand_decode_rdata HIpseckey None w' 0 (length w') = Ok vs.
Proof.
  intros wire cur rdlen vs H. unfold hand_decode_rdata in H.
  destruct (Nat.ltb (length wire) cur); [discriminate|].
  destruct (Nat.ltb (length wire - cur) rdlen); [discriminate|]. cbv zeta in H.
  cbn [hand_dec hand_valid] in H.
  destruct (ipseckey_dec wire None (cur + rdlen) cur) as [[vs' c]| |] eqn:Ed; cbn [bind fst snd] in H; try discriminate.
  destruct (ipseckey_valid vs') eqn:Hv; cbn [negb] in H; [|discriminate].
  destruct (Nat.eqb c (cur + rdlen)); [|discriminate]. injection H as <-.
  (* shape of the decoded value *)
  unfold ipseckey_dec in Ed.
  inv_bind Ed. inv_bind Ed. inv_bind Ed. inv_bind Ed. inv_bind Ed. injection Ed as <- _.
  destruct x2 as [gw cg]. cbn [fst snd] in *.
  apply gw_dec_abs in E2.
  pose proof Hv as Hv'. unfold ipseckey_valid in Hv'.
  apply andb_prop in Hv' as [Hu Hgw].
  destruct (gw_enc_total _ _ Hgw E2) as [g Eg].
  assert (Henc : exists w', hand_encode_rdata HIpseckey None
            [VS (VI (fst x)); VS (VI (fst x0)); VS (VI (fst x1)); gw; VS (VB (fst x3))] = Ok w').
  { unfold hand_encode_rdata. cbn [hand_valid hand_enc]. rewrite Hv. cbn [ipseckey_enc]. rewrite Hu, Eg. cbn [bind]. eauto. }
  destruct Henc as [w' Ew]. exists w'. split; [exact Ew|].
  pose proof (ipseckey_roundtrip_thm _ w' [] [] Ew) as Hr. cbn [app length] in Hr. rewrite app_nil_r in Hr. exact Hr.
Qed.

Theorem amtrelay_fixed_point_thm : forall wire cur rdlen vs,
  hand_decode_rdata HAmtrelay None wire cur rdlen = Ok vs ->
  exists w', hand_encode_rdata HAmtrelay None vs = Ok w' /\
             hand_decode_rdata HAmtrelay None w' 0 (length w') = Ok vs.
Proof.
  intros wire cur rdlen vs H. unfold hand_decode_rdata in H.
  destruct (Nat.ltb (length wire) cur); [discriminate|].
  destruct (Nat.ltb (length wire - cur) rdlen); [discriminate|]. cbv zeta in H.
  cbn [hand_dec hand_valid] in H.
  destruct (amtrelay_dec wire None (cur + rdlen) cur) as [[vs' c]| |] eqn:Ed; cbn [bind fst snd] in H; try discriminate.
  destruct (amtrelay_valid vs') eqn:Hv; cbn [negb] in H; [|discriminate].
  destruct (Nat.eqb c (cur + rdlen)); [|discriminate]. injection H as <-.
  unfold amtrelay_dec in Ed.
  inv_bind Ed. inv_bind Ed. inv_bind Ed. injection Ed as <- _.
  destruct x1 as [gw cg]. cbn [fst snd] in *.
  apply gw_dec_abs in E1.
  set (d := fst x0 / 128) in *. set (ty := fst x0 mod 128) in *.
  pose proof Hv as Hv'. unfold amtrelay_valid in Hv'.
  apply andb_prop in Hv' as [Hv' Hgw]. apply andb_prop in Hv' as [Hv' Ht]. apply andb_prop in Hv' as [Hp Hd].
  destruct (gw_enc_total _ _ Hgw E1) as [g Eg].
  assert (Hty : 0 <= ty <= 3).
  { destruct gw as [[z|x1|n]|rows]; cbn [gw_valid] in Hgw; try discriminate.
    - apply orb_prop in Hgw as [Hq|Hq]; apply andb_prop in Hq as [Hq _]; lia.
    - apply andb_prop in Hgw as [Hq _]. lia.
    - destruct rows; [lia|discriminate]. }
  assert (Hu : u8_ok (ty + 128 * d) = true) by (unfold u8_ok; lia).
  assert (Henc : exists w', hand_encode_rdata HAmtrelay None [VS (VI (fst x)); VS (VI d); VS (VI ty); gw] = Ok w').
  { unfold hand_encode_rdata. cbn [hand_valid hand_enc]. rewrite Hv. cbn [amtrelay_enc]. rewrite Hp, Hu, Eg. cbn [andb bind]. eauto. }
  destruct Henc as [w' Ew]. exists w'. split; [exact Ew|].
  pose proof (amtrelay_roundtrip_thm _ w' [] [] Ew) as Hr. cbn [app length] in Hr. rewrite app_nil_r in Hr. exact Hr.
Qed.

Theorem hip_fixed_point_thm : forall wire cur rdlen vs,
  all_bytes wire = true ->
  hand_decode_rdata HHip None wire cur rdlen = Ok vs ->
  exists w', hand_encode_rdata HHip None vs = Ok w' /\
             hand_decode_rdata HHip None w' 0 (length w') = Ok vs.
Proof.
  intros wire cur rdlen vs Hb H. unfold hand_decode_rdata in H.
  destruct (Nat.ltb_spec (length wire) cur) as [|Hc]; [discriminate|].
  destruct (Nat.ltb_spec (length wire - cur) rdlen) as [|Hl]; [discriminate|]. cbv zeta in H.
  cbn [hand_dec hand_valid] in H.
  destruct (hip_dec wire None (cur + rdlen) cur) as [[vs' c]| |] eqn:Ed; cbn [bind fst snd] in H; try discriminate.
  destruct (hip_valid vs') eqn:Hv; cbn [negb] in H; [|discriminate].
  destruct (Nat.eqb c (cur + rdlen)); [|discriminate]. injection H as <-.
  unfold hip_dec in Ed.
  inv_bind Ed. inv_bind Ed. inv_bind Ed. inv_bind Ed. inv_bind Ed. inv_bind Ed. injection Ed as <- _.
  destruct x as [lh c1], x0 as [alg c2], x1 as [lk c3], x2 as [hit c4], x3 as [key c5], x4 as [srv c6].
  cbn [fst snd] in *.
  assert (He : (cur + rdlen <= length wire)%nat) by lia.
  (* the three header reads *)
  unfold get_u in E, E0, E1.
  inv_bind E. injection E as <- <-. destruct x as [b1 d1]. cbn [fst snd] in *.
  apply get_bytes_slice in E5 as (-> & -> & L1 & Len1); [|lia|exact He].
  inv_bind E0. injection E0 as <- <-. destruct x as [b2 d2]. cbn [fst snd] in *.
  apply get_bytes_slice in E as (-> & -> & L2 & Len2); [|lia|exact He].
  inv_bind E1. injection E1 as <- <-. destruct x as [b3 d3]. cbn [fst snd] in *.
  apply get_bytes_slice in E as (-> & -> & L3 & Len3); [|lia|exact He].
  apply get_bytes_slice in E2 as (-> & -> & L4 & Len4); [|lia|exact He].
  apply get_bytes_slice in E3 as (-> & -> & L5 & Len5); [|lia|exact He].
  pose proof (be_decode_bounds _ (all_bytes_slice wire (cur + 1 + 1) (cur + 1 + 1 + 2) Hb)) as Bk.
  rewrite Len3 in Bk. change (pow256 2) with 65536 in Bk.
  set (lkz := be_decode (slice wire (cur + 1 + 1) (cur + 1 + 1 + 2))) in *.
  set (keyb := slice wire (cur + 1 + 1 + 2 + Z.to_nat (be_decode (slice wire cur (cur + 1))))
                     (cur + 1 + 1 + 2 + Z.to_nat (be_decode (slice wire cur (cur + 1))) + Z.to_nat lkz)) in *.
  assert (Hkey : zlen keyb < 65536) by (unfold zlen; rewrite Len5; lia).
  apply dec_rows_abs in E4.
  pose proof Hv as Hv'. unfold hip_valid in Hv'.
  apply andb_prop in Hv' as [Hv' Hsrv]. apply andb_prop in Hv' as [Hv' Ha1]. apply andb_prop in Hv' as [Hh Ha0].
  destruct (enc_rows_total [FName true] srv eq_refl Hsrv E4) as [s Es].
  set (hitb := slice wire (cur + 1 + 1 + 2) (cur + 1 + 1 + 2 + Z.to_nat (be_decode (slice wire cur (cur + 1))))) in *.
  set (algz := be_decode (slice wire (cur + 1) (cur + 1 + 1))) in *.
  assert (Henc : exists w', hand_encode_rdata HHip None [VS (VB hitb); VS (VI algz); VS (VB keyb); VL srv] = Ok w').
  { unfold hand_encode_rdata. cbn [hand_valid hand_enc]. rewrite Hv. cbn [hip_enc].
    replace ((zlen hitb <? 256) && (0 <=? algz) && (algz <? 256) && (zlen keyb <? 65536)) with true by lia.
    rewrite Es. cbn [bind]. eauto. }
  destruct Henc as [w' Ew]. exists w'. split; [exact Ew|].
  pose proof (hip_roundtrip_thm _ w' [] [] Ew) as Hr. cbn [app length] in Hr. rewrite app_nil_r in Hr. exact Hr.
Qed.
