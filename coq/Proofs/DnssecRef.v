(* Independent reference definitions written from the RFC text (no proofs here).
   RFC 4034 3.1.8.1, 4.1.2, 5.1.4, 6.1-6.3, appendix B; RFC 4035 2.3, 5.3.2; RFC 5155 5;
   RFC 6840 5.1; RFC 4648 7; RFC 8976 3.3.  The theorems of Props/C15.v state
   `model = reference`; nothing below mentions a function of Model/DnssecM.v except the data types
   (field, entry) and the error codes. *)
From Coq Require Import Permutation Sorted.
From DV Require Import Base.Prelude Model.NameM Model.DnssecM.
Open Scope Z_scope.

(* ---------- RFC 4034 6.2: canonical RR form ---------- *)
(* (1) every name is fully expanded (no compression, relative names completed with the origin);
   a completed name of more than 255 octets is not a domain name *)
Definition rfc_expand (n : name) (origin : option name) : res name :=
  if is_absolute n then Ok n
  else match origin with
       | Some o => if is_absolute o
                   then if wire_length n + wire_length o >? 255 then Lib eNameTooLong else Ok (n ++ o)
                   else Lib eNeedAbsolute
       | None => Lib eNeedAbsolute
       end.

(* uncompressed wire form of an absolute name, (2)/(3) optionally with US-ASCII letters lower-cased *)
Definition rfc_name_wire (low : bool) (n : name) : bytes :=
  flat_map (fun l => zlen l :: (if low then map lower l else l)) n.

(* (3) names inside the RDATA are lower-cased exactly for the listed types *)
Fixpoint rfc4034_canonical_rdata (ty : Z) (fs : list field) (origin : option name) : res bytes :=
  match fs with
  | [] => Ok []
  | FRaw b :: r => do rest <- rfc4034_canonical_rdata ty r origin; Ok (b ++ rest)
  | FName n :: r =>
      do a <- rfc_expand n origin;
      do rest <- rfc4034_canonical_rdata ty r origin;
      Ok (rfc_name_wire (rfc_downcased ty) a ++ rest)
  end.

Definition is_fname (f : field) : bool := match f with FName _ => true | FRaw _ => false end.
Definition count_names (fs : list field) : nat := length (filter is_fname fs).
(* the rdata value has the shape of its type: no more names than the type's encoder writes *)
Definition arity_ok (tbl : list entry) (cls ty : Z) (fs : list field) : bool :=
  match lookup tbl cls ty with
  | Some e => Nat.leb (count_names fs) (length (e_calls e)) || (match e_loop e with Some _ => true | None => false end)
  | None => Nat.eqb (count_names fs) 0
  end.

(* ---------- RFC 4034 appendix B: key tag ---------- *)
(* for (ac = 0, i = 0; i < keysize; ++i) ac += (i & 1) ? key[i] : key[i] << 8; *)
Fixpoint rfc_ac (key : bytes) (i : nat) : Z :=
  match key with
  | [] => 0
  | k :: r => (if Nat.odd i then k else k * 256) + rfc_ac r (S i)
  end.
(* ac += (ac >> 16) & 0xFFFF; return ac & 0xFFFF; *)
Definition rfc_keytag (rdata : bytes) : Z :=
  let ac := rfc_ac rdata 0 in (ac + (ac / 65536) mod 65536) mod 65536.

(* B.1 (algorithm 1, with erratum 2681): the most significant 16 of the least significant 24 bits
   of the public key modulus, which are the last three octets of the RDATA *)
Definition be_int (l : bytes) : Z := fold_left (fun acc b => acc * 256 + b) l 0.
Definition rfc_keytag_alg1 (rdata : bytes) : Z := (be_int rdata mod 16777216) / 256.

(* ---------- RFC 4034 6.3: canonical RR ordering within an RRset ---------- *)
(* left-justified unsigned octet sequences, absence of an octet sorts before a zero octet;
   specification: the sorted permutation *)
Definition bytes_le (a b : bytes) : Prop := cmp_bytes a b <> Gt.
Definition is_canonical_order (input output : list bytes) : Prop :=
  Permutation input output /\ StronglySorted bytes_le output.

(* ---------- RFC 4034 3.1.8.1 + RFC 4035 5.3.2: the signed data ---------- *)
(* RRSIG RDATA minus the signature, signer's name in canonical form *)
Definition rfc_rrsig_rdata (covered alg labels ottl exp inc tag : Z) (signer : name) : bytes :=
  u16 covered ++ [alg; labels] ++ u32 ottl ++ u32 exp ++ u32 inc ++ u16 tag ++ rfc_name_wire true signer.

(* RFC 4035 5.3.2: if the RRSIG labels field is smaller than the number of labels of the owner
   (root label and nothing else excluded), the owner is replaced by "*." followed by the
   rightmost `labels` labels *)
Definition rfc_label_count (fqdn : name) : Z := zlen fqdn - 1.
Definition rfc_wildcard_owner (fqdn : name) (labels : Z) : name :=
  if labels <? rfc_label_count fqdn
  then [42] :: skipn (Z.to_nat (rfc_label_count fqdn - labels)) fqdn
  else fqdn.

(* RR(i) = owner | type | class | original TTL | RDATA length | RDATA *)
Definition rfc_rr (owner : name) (ty cls ottl : Z) (rdata : bytes) : bytes :=
  rfc_name_wire true owner ++ u16 ty ++ u16 cls ++ u32 ottl ++ u16 (zlen rdata) ++ rdata.

(* signature = sign(RRSIG_RDATA | RR(1) | RR(2)...), the RRs in canonical order
   (`sorted` is any list with  is_canonical_order canonical_rdatas sorted; it is unique) *)
Definition rfc_rrsig_input (covered alg labels ottl exp inc tag : Z) (signer owner : name)
           (cls ty : Z) (sorted : list bytes) : bytes :=
  rfc_rrsig_rdata covered alg labels ottl exp inc tag signer
  ++ flat_map (rfc_rr (rfc_wildcard_owner owner labels) ty cls ottl) sorted.

(* ---------- RFC 4034 5.1.4: DS digest input ---------- *)
(* digest = digest_algorithm( DNSKEY owner name | DNSKEY RDATA ), owner name in canonical form *)
Definition rfc_ds_input (owner : name) (flags protocol alg : Z) (key : bytes) : bytes :=
  rfc_name_wire true owner ++ (u16 flags ++ [protocol; alg] ++ key).

(* ---------- RFC 5155 5: iterated hash; RFC 4648 7: base32hex ---------- *)
Section Rfc5155.
  Variable H : bytes -> bytes.
  (* IH(salt, x, 0) = H(x || salt);  IH(salt, x, k) = H(IH(salt, x, k-1) || salt) *)
  Fixpoint rfc_IH (salt x : bytes) (k : nat) : bytes :=
    match k with
    | O => H (x ++ salt)
    | S k' => H (rfc_IH salt x k' ++ salt)
    end.
  Definition rfc_nsec3_hash (owner : name) (salt : bytes) (iterations : nat) : bytes :=
    b32encode b32_hex (rfc_IH salt (rfc_name_wire true owner) iterations).
End Rfc5155.

(* ---------- RFC 4034 4.1.2: type bit maps ---------- *)
(* decoding: the types represented by a list of (window, bitmap) blocks *)
Definition bit_set (octet : Z) (j : nat) : bool := Z.testbit octet (Z.of_nat (7 - j)).
Definition octet_types (window : Z) (i : nat) (octet : Z) : list Z :=
  map (fun j => window * 256 + Z.of_nat i * 8 + Z.of_nat j) (filter (bit_set octet) (seq 0 8)).
Fixpoint block_types (window : Z) (i : nat) (bm : bytes) : list Z :=
  match bm with
  | [] => []
  | o :: r => octet_types window i o ++ block_types window (S i) r
  end.
Definition bitmap_types (ws : list (Z * bytes)) : list Z :=
  flat_map (fun wb => block_types (fst wb) 0 (snd wb)) ws.

(* well-formed encoding: windows strictly increasing in 0..255, 1..32 octets each, octets are
   bytes, no trailing zero octet *)
Fixpoint windows_increasing (last : Z) (ws : list (Z * bytes)) : Prop :=
  match ws with
  | [] => True
  | (w, _) :: r => last < w /\ windows_increasing w r
  end.
Definition block_wf (wb : Z * bytes) : Prop :=
  0 <= fst wb <= 255 /\ (1 <= length (snd wb) <= 32)%nat /\
  Forall (fun o => 0 <= o < 256) (snd wb) /\ last (snd wb) 0 <> 0.
Definition bitmap_wf (ws : list (Z * bytes)) : Prop :=
  windows_increasing (-1) ws /\ Forall block_wf ws.

(* the set of types as a strictly increasing list *)
Fixpoint strictly_increasing (l : list Z) : Prop :=
  match l with
  | [] => True
  | x :: r => match r with [] => True | y :: _ => x < y end /\ strictly_increasing r
  end.

(* the set a type bitmap stands for: the distinct non-zero types, ascending *)
Definition is_type_set (ts set : list Z) : Prop :=
  strictly_increasing set /\ forall t, In t set <-> In t ts /\ t <> 0.

(* ---------- RFC 4035 2.2/2.3 (RFC 4034 4): the NSEC chain of a signed zone ---------- *)
Section NsecChain.
  (* origin: absolute zone name; apex: the name under which the zone stores its apex node
     (the origin, or the empty name in a relativized zone); nodes: owner -> rdataset types *)
  Variables (origin apex : name) (nodes : list znode).

  Definition types_at (n : name) : list Z :=
    match get_node nodes n with Some ts => ts | None => [] end.

  (* a delegation point: an NS RRset at a name other than the apex *)
  Definition rfc_cut (n : name) : bool := has_type (types_at n) tNS && negb (name_eqb n apex).

  (* names below a zone cut (glue, occluded data) are not authoritative: no NSEC, no RRSIG *)
  Definition rfc_occluded (names : list name) (n : name) : bool :=
    existsb (fun d => rfc_cut d && negb (name_eqb d n) && is_subdomain n d) names.

  (* `sorted`: the owner names in canonical order (RFC 4034 6.1) *)
  Definition rfc_secure (sorted : list name) : list name :=
    filter (fun n => negb (rfc_occluded sorted n)) sorted.

  (* the types listed in the NSEC at n: everything at the name, at a delegation point only NS and
     DS (RFC 4035 2.3), plus NSEC itself and its RRSIG *)
  Definition rfc_present_types (n : name) : list Z :=
    (if rfc_cut n then filter (fun t => (t =? tNS) || (t =? tDS)) (types_at n) else types_at n)
    ++ [tRRSIG; tNSEC].

  (* every authoritative name once, in canonical order, next = successor, the last wraps to the origin *)
  Fixpoint rfc_chain (l : list name) : list (name * name * list Z) :=
    match l with
    | [] => []
    | a :: r => (a, match r with [] => origin | b :: _ => b end, rfc_present_types a) :: rfc_chain r
    end.

  (* the RRsets that get signatures: authoritative data except RRSIGs; at a delegation only DS *)
  Definition rfc_signed (l : list name) : list (name * Z) :=
    flat_map (fun n => map (pair n)
                (filter (fun t => negb (t =? tRRSIG) && (negb (rfc_cut n) || (t =? tDS))) (types_at n))) l.
End NsecChain.

Definition nsec_calls (cs : list scall) : list (name * name * list (Z * bytes)) :=
  flat_map (fun c => match c with SignNSEC n nx ws => [(n, nx, ws)] | SignRR _ _ => [] end) cs.
Definition rr_calls (cs : list scall) : list (name * Z) :=
  flat_map (fun c => match c with SignRR n t => [(n, t)] | SignNSEC _ _ _ => [] end) cs.

(* an NSEC record handed to the signer against a reference chain entry: same owner, same next,
   and a well-formed bitmap that stands for exactly the reference type set *)
Definition nsec_matches (got : name * name * list (Z * bytes)) (ref : name * name * list Z) : Prop :=
  fst (fst got) = fst (fst ref) /\ snd (fst got) = snd (fst ref) /\
  bitmap_wf (snd got) /\ is_type_set (snd ref) (bitmap_types (snd got)).

(* ---------- RFC 8976 3.3 / 3.4: the ZONEMD SIMPLE digest input ---------- *)
(* one resource record of the zone, RDATA in canonical form; q_covers is the type covered when
   the record is an RRSIG (how the zone files RRSIGs), 0 otherwise *)
Record zrr := { q_owner : name; q_type : Z; q_covers : Z; q_class : Z; q_ttl : Z; q_rdata : bytes }.

Section Zonemd.
  Variables (origin apex : name).

  (* canonical RDATA of every record (RFC 4034 6.2), relative names completed with the origin *)
  Definition rfc_rds_rrs (owner : name) (rds : zrds) : res (list zrr) :=
    do cs <- map_res (fun fs => rfc4034_canonical_rdata (z_type rds) fs (Some origin)) (z_rdatas rds);
    Ok (map (fun c => {| q_owner := owner; q_type := z_type rds; q_covers := z_covers rds;
                         q_class := z_class rds; q_ttl := z_ttl rds; q_rdata := c |}) cs).
  Definition rfc_node_rrs (nd : name * list zrds) : res (list zrr) :=
    do l <- map_res (rfc_rds_rrs (fst nd)) (snd nd); Ok (concat l).
  Definition rfc_zone_rrs (nodes : list (name * list zrds)) : res (list zrr) :=
    do l <- map_res rfc_node_rrs nodes; Ok (concat l).

  (* 3.3.1: all records of the zone except the apex ZONEMD RRset and the RRSIG covering it *)
  Definition rfc_zonemd_included (r : zrr) : bool :=
    negb (name_eqb (q_owner r) apex &&
          ((q_type r =? tZONEMD) || ((q_type r =? tRRSIG) && (q_covers r =? tZONEMD)))).

  (* 3.3.1: sorted by owner name in canonical order, then by type, then by canonical RDATA *)
  Definition rfc_rr_le (a b : zrr) : Prop :=
    order (q_owner a) (q_owner b) < 0 \/
    (order (q_owner a) (q_owner b) = 0 /\
     (q_type a < q_type b \/ (q_type a = q_type b /\ bytes_le (q_rdata a) (q_rdata b)))).

  (* 3.4: each RR as owner | type | class | TTL | RDLENGTH | RDATA, owner and RDATA canonical *)
  Definition rfc_owner_abs (n : name) : name := if is_absolute n then n else n ++ origin.
  Definition rfc_rr_wire (r : zrr) : bytes :=
    rfc_name_wire true (rfc_owner_abs (q_owner r)) ++ u16 (q_type r) ++ u16 (q_class r) ++ u32 (q_ttl r)
    ++ u16 (zlen (q_rdata r)) ++ q_rdata r.

  (* the digest input: the included RRs, sorted, serialised *)
  Definition is_zonemd_input (nodes : list (name * list zrds)) (input : bytes) : Prop :=
    exists all L, rfc_zone_rrs nodes = Ok all /\
      Permutation L (filter rfc_zonemd_included all) /\
      StronglySorted rfc_rr_le L /\
      input = concat (map rfc_rr_wire L).
End Zonemd.
