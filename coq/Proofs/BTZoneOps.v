(* C20, layer D4: every WritableVersion operation preserves the invariant. *)
From DV Require Import Base.Prelude Model.NameM Model.BTZoneM
     Proofs.BTZoneOrder Proofs.BTZoneList Proofs.BTZoneSpec Proofs.BTZoneWalk Proofs.BTZoneInv
     Proofs.BTZoneMaster.
Open Scope Z_scope.

(* ---------- Desc for the list primitives ---------- *)
Lemma D_refl : forall (l : nodes_t) n n0 nd,
    sorted l -> In (n0, nd) l -> K n0 = K n -> Desc l l n (Some (n0, nd)) idtr.
Proof.
  intros l n n0 nd S Hin E k' v'. unfold idtr. split.
  - intros H. destruct (key_eq_dec (K k') (K n)) as [Ek|Ek].
    + right. split; auto. f_equal. eapply sorted_functional; eauto. congruence.
    + left. split; auto. exists v'. auto.
  - intros [[_ (nd1 & H & ->)]|[H _]]; auto. inversion H; subst; auto.
Qed.

Lemma D_refl_none : forall (l : nodes_t) n, al_get n l = None -> Desc l l n None idtr.
Proof.
  intros l n G k' v'. unfold idtr. apply al_get_none in G. split.
  - intros H. left. split; [|exists v'; auto]. intros E. apply G. rewrite <- E. eapply in_keys; eauto.
  - intros [[_ (nd1 & H & ->)]|[H _]]; auto. discriminate.
Qed.

Lemma D_set : forall (l : nodes_t) n x, sorted l -> Desc l (al_set n x l) n (Some (n, x)) idtr.
Proof.
  intros l n x S k' v'. unfold idtr. rewrite al_set_in by auto. split.
  - intros [H|[H Hn]]; [right; inversion H; subst; auto|]. left. split; auto. exists v'; auto.
  - intros [[Hn (nd1 & H & ->)]|[H _]]; auto. inversion H; subst. left; auto.
Qed.

Lemma D_update : forall (l l1 : nodes_t) n n0 x0 x tr,
    sorted l1 -> Desc l l1 n (Some (n0, x0)) tr -> K n0 = K n ->
    Desc l (al_update n x l1) n (Some (n0, x)) tr.
Proof.
  intros l l1 n n0 x0 x tr S D E k' v'. rewrite al_update_in by auto. split.
  - intros [(v0 & H & Ek & ->)|[H Hn]].
    + apply D in H as [[Hn _]|[H _]]; [congruence|]. inversion H; subst. right; auto.
    + apply D in H as [H|[_ H]]; [left; auto|congruence].
  - intros [[Hn H]|[H Ek]].
    + right. split; auto. apply D. left; auto.
    + inversion H; subst. left. exists x0. repeat split; auto. apply D. right; auto.
Qed.

Lemma D_del : forall (l l1 l2 : nodes_t) n en tr,
    sorted l1 -> Desc l l1 n en tr -> al_del n l1 = Some l2 -> Desc l l2 n None tr.
Proof.
  intros l l1 l2 n en tr S D H k' v'. destruct (al_del_some _ _ _ S H) as [_ H2]. rewrite H2. split.
  - intros [Hin Hn]. apply D in Hin as [Hin|[_ Hk]]; [left; auto|congruence].
  - intros [[Hn Hin]|[Hd _]]; [|discriminate]. split; auto. apply D. left; auto.
Qed.

Lemma D_trans_walk : forall (l l2 l3 : nodes_t) n en (trw : name -> node -> node),
    Desc l l2 n en idtr ->
    (forall k nd', In (k, nd') l3 <-> exists nd, In (k, nd) l2 /\ nd' = trw k nd) ->
    (forall k nd, K k = K n -> trw k nd = nd) ->
    Desc l l3 n en trw.
Proof.
  intros l l2 l3 n en trw D H3 Hn k' v'. rewrite H3. split.
  - intros (nd & Hin & ->). apply D in Hin as [[Hk (nd0 & Hin & ->)]|[He Hk]].
    + left. split; auto. exists nd0. auto.
    + right. rewrite Hn by auto. auto.
  - intros [[Hk (nd & Hin & ->)]|[He Hk]].
    + exists nd. split; auto. apply D. left. split; auto. exists nd; auto.
    + exists v'. split; [apply D; right; auto|]. rewrite Hn; auto.
Qed.

(* ---------- update_glue_flag described on the whole list ---------- *)
Lemma subtree_in : forall (l : nodes_t) n b sub rest,
    l = rev b ++ sub ++ rest ->
    (forall k v, In (k, v) sub -> sbelow (K k) (K n)) ->
    (forall k v, In (k, v) rest -> ~ below (K k) (K n)) ->
    (forall k v, In (k, v) (rev b) -> ~ sbelow (K k) (K n)) ->
    forall k v, In (k, v) sub <-> (In (k, v) l /\ sbelow (K k) (K n)).
Proof.
  intros l n b sub rest E H1 H2 H3 k v. split.
  - intros H. split; eauto. rewrite E. apply in_or_app. right. apply in_or_app. auto.
  - intros [H Hs]. rewrite E in H. apply in_app_or in H as [H|H]; [exfalso; eapply H3; eauto|].
    apply in_app_or in H as [H|H]; auto. exfalso. eapply H2; eauto. apply sbelow_below; auto.
Qed.

Lemma subtree_keys : forall (l sub : nodes_t) n,
    (forall k v, In (k, v) sub <-> (In (k, v) l /\ sbelow (K k) (K n))) ->
    forall y, In y (keys sub) <-> (In y (keys l) /\ sbelow y (K n)).
Proof.
  intros l sub n H y. split.
  - intros Hy. apply keys_in in Hy as (k & v & Hin & <-). apply H in Hin as [Hin Hs]. split; auto.
    eapply in_keys; eauto.
  - intros [Hy Hs]. apply keys_in in Hy as (k & v & Hin & <-). apply (in_keys _ k v). apply H; auto.
Qed.

Lemma sorted_map_keys : forall (sub : nodes_t) (f : name * node -> node),
    sorted sub -> sorted (map (fun e => (fst e, f e)) sub).
Proof. intros. unfold sorted. rewrite map_keys_same. auto. Qed.

Lemma ugf_true_desc : forall (l2 : nodes_t) (d2 : delegs_t) ch n,
    sorted l2 -> sorted d2 ->
    exists l3 d3 ch3,
      update_glue_flag (mkVer l2 d2 ch) n true = mkVer l3 d3 ch3 /\
      sorted l3 /\ sorted d3 /\
      (forall k nd', In (k, nd') l3 <->
                     exists nd, In (k, nd) l2 /\
                                nd' = if strictly_beneath k n then mkNode fGLUE (nrds nd) else nd) /\
      (forall y, In y (keys d3) <-> (In y (keys d2) /\ ~ (sbelow y (K n) /\ In y (keys l2)))).
Proof.
  intros l2 d2 ch n S Sd. destruct (c_seek l2 n) as [b a] eqn:Es.
  destruct (seek_subtree l2 n b a S Es) as (sub & rest & Ea & El & H1 & H2 & H3 & Ss).
  destruct (ugf_eq l2 d2 ch n true b a sub rest Es Ea H1 H2) as [ch' E].
  pose proof (subtree_in l2 n b sub rest El H1 H2 H3) as Hsub.
  pose proof (subtree_keys l2 sub n Hsub) as Hsk.
  rewrite walk_true_ups in E.
  set (ups := map (fun e : name * node => (fst e, mkNode fGLUE (nrds (snd e)))) sub) in *.
  assert (Sups : sorted ups) by (apply (sorted_map_keys sub (fun e => mkNode fGLUE (nrds (snd e)))); auto).
  destruct (apply_updates_spec ups l2 S Sups) as [S3 H3'].
  destruct (walk_true_delegs sub None d2 Sd) as [Sd3 Hd3].
  exists (apply_updates ups l2), (fst (walk true sub None d2)), ch'.
  split; [exact E|]. split; [exact S3|]. split; [exact Sd3|]. split; [intros k nd'; split|intros y; split].
  - intros Hin. apply H3' in Hin as [Hin|[Hin Hk]].
    + apply in_map_iff in Hin as ([k0 nd0] & E0 & Hin0). inversion E0; subst. cbn [fst snd].
      apply Hsub in Hin0 as [Hin0 Hs]. exists nd0. split; auto.
      apply strictly_beneath_iff in Hs. rewrite Hs. reflexivity.
    + exists nd'. split; auto.
      assert (strictly_beneath k n = false); [|rewrite H; auto].
      apply not_true_is_false. intros Hs. apply strictly_beneath_iff in Hs. apply Hk.
      unfold ups. rewrite (map_keys_same sub (fun e => mkNode fGLUE (nrds (snd e)))).
      apply Hsk. split; auto. eapply in_keys; eauto.
  - intros (nd & Hin & ->). apply H3'. destruct (strictly_beneath k n) eqn:Sb.
    + left. apply strictly_beneath_iff in Sb. apply in_map_iff. exists (k, nd). split; auto.
      apply Hsub; auto.
    + right. split; auto. unfold ups. rewrite (map_keys_same sub (fun e => mkNode fGLUE (nrds (snd e)))).
      intros Hk. apply Hsk in Hk as [_ Hs]. apply strictly_beneath_iff in Hs. congruence.
  - intros Hy. apply keys_in in Hy as (k & u & Hin & <-). apply Hd3 in Hin as [Hin Hk].
    split; [eapply in_keys; eauto|]. intros [Hs Hl]. apply Hk. apply Hsk; auto.
  - intros [Hy Hn]. apply keys_in in Hy as (k & u & Hin & <-). apply (in_keys _ k u). apply Hd3.
    split; auto. intros Hk. apply Hsk in Hk as [Hl Hs]. auto.
Qed.

Lemma covered_inner : forall (l sub : nodes_t) n,
    (forall k v, In (k, v) sub <-> (In (k, v) l /\ sbelow (K k) (K n))) ->
    forall k, covered None sub k = inner l n k.
Proof.
  intros l sub n H k. unfold covered, inner. cbn [orb].
  destruct (existsb (fun e => has_ns (snd e) && strictly_beneath k (fst e)) sub) eqn:A.
  - apply existsb_exists in A as ([m nd] & Hin & Hx). apply H in Hin as [Hin Hs].
    symmetry. apply existsb_exists. exists (m, nd). split; auto. cbn [fst snd] in *.
    apply andb_true_iff in Hx as [Hx1 Hx2]. rewrite Hx1, Hx2.
    apply strictly_beneath_iff in Hs. rewrite Hs. reflexivity.
  - symmetry. apply not_true_is_false. intros B. apply existsb_exists in B as ([m nd] & Hin & Hx).
    cbn [fst snd] in Hx. apply andb_true_iff in Hx as [Hx Hx3]. apply andb_true_iff in Hx as [Hx1 Hx2].
    assert (existsb (fun e => has_ns (snd e) && strictly_beneath k (fst e)) sub = true); [|congruence].
    apply existsb_exists. exists (m, nd). split.
    + apply H. split; auto. apply strictly_beneath_iff; auto.
    + cbn [fst snd]. rewrite Hx1, Hx3. reflexivity.
Qed.

Lemma ugf_false_desc : forall (l2 : nodes_t) (d2 : delegs_t) ch n,
    sorted l2 -> sorted d2 ->
    exists l3 d3 ch3,
      update_glue_flag (mkVer l2 d2 ch) n false = mkVer l3 d3 ch3 /\
      sorted l3 /\ sorted d3 /\
      (forall k nd', In (k, nd') l3 <->
                     exists nd, In (k, nd) l2 /\
                                nd' = if strictly_beneath k n
                                      then mkNode (if inner l2 n k then fGLUE
                                                   else if has_ns nd then fDELEGATION else 0) (nrds nd)
                                      else nd) /\
      (forall y, In y (keys d3) <->
                 (In y (keys d2) \/
                  exists k nd, In (k, nd) l2 /\ K k = y /\ sbelow y (K n) /\ has_ns nd = true /\
                               inner l2 n k = false)).
Proof.
  intros l2 d2 ch n S Sd. destruct (c_seek l2 n) as [b a] eqn:Es.
  destruct (seek_subtree l2 n b a S Es) as (sub & rest & Ea & El & H1 & H2 & H3 & Ss).
  destruct (ugf_eq l2 d2 ch n false b a sub rest Es Ea H1 H2) as [ch' E].
  pose proof (subtree_in l2 n b sub rest El H1 H2 H3) as Hsub.
  pose proof (subtree_keys l2 sub n Hsub) as Hsk.
  pose proof (covered_inner l2 sub n Hsub) as Hcov.
  rewrite (walk_false_ups sub None d2 Ss Logic.I) in E.
  set (f := fun e : name * node => mkNode (wflags false None sub e) (nrds (snd e))) in *.
  set (ups := map (fun e : name * node => (fst e, f e)) sub) in *.
  assert (Sups : sorted ups) by (apply (sorted_map_keys sub f); auto).
  destruct (apply_updates_spec ups l2 S Sups) as [S3 H3'].
  destruct (walk_false_delegs sub None d2 Ss Sd Logic.I) as [Sd3 Hd3].
  exists (apply_updates ups l2), (fst (walk false sub None d2)), ch'.
  split; [exact E|]. split; [exact S3|]. split; [exact Sd3|]. split; [intros k nd'; split|intros y; split].
  - intros Hin. apply H3' in Hin as [Hin|[Hin Hk]].
    + apply in_map_iff in Hin as ([k0 nd0] & E0 & Hin0). inversion E0; subst. cbn [fst snd].
      apply Hsub in Hin0 as [Hin0 Hs]. exists nd0. split; auto.
      apply strictly_beneath_iff in Hs. rewrite Hs. unfold f, wflags. cbn [fst snd]. rewrite Hcov. reflexivity.
    + exists nd'. split; auto.
      assert (strictly_beneath k n = false); [|rewrite H; auto].
      apply not_true_is_false. intros Hs. apply strictly_beneath_iff in Hs. apply Hk.
      unfold ups. rewrite (map_keys_same sub f).
      apply Hsk. split; auto. eapply in_keys; eauto.
  - intros (nd & Hin & ->). apply H3'. destruct (strictly_beneath k n) eqn:Sb.
    + left. apply strictly_beneath_iff in Sb. apply in_map_iff. exists (k, nd). split.
      * unfold f, wflags. cbn [fst snd]. rewrite Hcov. reflexivity.
      * apply Hsub; auto.
    + right. split; auto. unfold ups. rewrite (map_keys_same sub f).
      intros Hk. apply Hsk in Hk as [_ Hs]. apply strictly_beneath_iff in Hs. congruence.
  - intros Hy. apply Hd3 in Hy as [Hy|(k & nd & Hin & Ek & Hns & Hc)]; auto.
    right. apply Hsub in Hin as [Hin Hs]. exists k, nd. rewrite <- Hcov. subst y. repeat split; auto; apply Hs.
  - intros [Hy|(k & nd & Hin & Ek & Hs & Hns & Hi)]; apply Hd3; auto.
    right. exists k, nd. rewrite Hcov. repeat split; auto. apply Hsub. subst y. auto.
Qed.

(* ---------- _maybe_cow_with_name ---------- *)
Lemma node_eta : forall nd, mkNode (nflags nd) (nrds nd) = nd.
Proof. destruct nd; reflexivity. Qed.

Lemma owner_entry : forall c (l : nodes_t) n0 nd,
    sorted l -> In (n0, nd) l -> (owner c l (K n0) <-> (has_ns nd = true /\ K n0 <> apexkey c)).
Proof.
  intros c l n0 nd S Hin. rewrite owner_unfold. split.
  - intros (m & nd1 & Hin1 & E & Hns & Hna). split; auto.
    assert ((m, nd1) = (n0, nd)) by (eapply sorted_functional; eauto). congruence.
  - intros [H1 H2]. exists n0, nd. auto.
Qed.

Lemma owner_absent : forall c (l : nodes_t) n, al_get n l = None -> ~ owner c l (K n).
Proof.
  intros c l n G (m & nd & Hin & _ & E). apply al_get_none in G. apply G. rewrite <- E. eapply in_keys; eauto.
Qed.

Lemma cow_spec : forall c v n v1 nd,
    Inv c v -> validk c (K n) -> maybe_cow c v n = (v1, nd) ->
    Inv c v1 /\ v_delegs v1 = v_delegs v /\
    (exists n0, K n0 = K n /\ In (n0, nd) (v_nodes v1)) /\
    nrds nd = match al_get n (v_nodes v) with Some nd0 => nrds nd0 | None => [] end.
Proof.
  intros c [l d ch] n v1 nd HI Hv H. unfold maybe_cow in H. cbn [v_nodes v_delegs v_changed] in H.
  pose proof (inv_sn c _ HI) as S. cbn [v_nodes] in S.
  pose proof (inv_is_glue c _ HI n) as Hglue. cbn [v_nodes v_delegs] in Hglue.
  pose proof (inv_mem c _ HI n) as Hmem. cbn [v_nodes v_delegs] in Hmem.
  (* the flags the override derives for a node with rdatasets r at n *)
  set (spec := fun (h : bool) => if is_apex c n then fORIGIN else if occluded c l n then fGLUE
                                 else if h then fDELEGATION else 0).
  assert (Hder : forall x, nflags x = 0 \/ nflags x = spec (has_ns x) ->
                 (al_mem n d = true -> has_ns x = true /\ is_apex c n = false) ->
                 (has_ns x = true -> is_apex c n = false -> occluded c l n = false -> al_mem n d = true) ->
                 nflags (if is_origin c n then mkNode (Z.lor (nflags x) fORIGIN) (nrds x)
                         else if deleg_is_glue d n then mkNode (Z.lor (nflags x) fGLUE) (nrds x)
                              else if al_mem n d then mkNode (Z.lor (nflags x) fDELEGATION) (nrds x)
                                   else x)
                 = spec (has_ns x) /\
                 nrds (if is_origin c n then mkNode (Z.lor (nflags x) fORIGIN) (nrds x)
                       else if deleg_is_glue d n then mkNode (Z.lor (nflags x) fGLUE) (nrds x)
                            else if al_mem n d then mkNode (Z.lor (nflags x) fDELEGATION) (nrds x)
                                 else x) = nrds x).
  { intros x Hf Hm1 Hm2. rewrite is_origin_apex, Hglue. unfold spec in *.
    destruct (is_apex c n) eqn:Ea; cbn [nflags nrds].
    - split; auto. destruct Hf as [Hf|Hf]; rewrite Hf; reflexivity.
    - destruct (occluded c l n) eqn:Eo; cbn [nflags nrds].
      + split; auto. destruct Hf as [Hf|Hf]; rewrite Hf; reflexivity.
      + destruct (al_mem n d) eqn:Em; cbn [nflags nrds].
        * destruct Hm1 as [Hh _]; auto. rewrite Hh in *. split; auto.
          destruct Hf as [Hf|Hf]; rewrite Hf; reflexivity.
        * split; auto. destruct (has_ns x) eqn:Eh.
          -- exfalso. assert (false = true) by (apply Hm2; auto). discriminate.
          -- destruct Hf as [Hf|Hf]; rewrite Hf; reflexivity. }
  destruct (al_get n l) as [nd0|] eqn:G.
  - pose proof G as G0. apply al_get_some in G as (n0 & Hin0 & E0).
    pose proof (inv_flags c _ HI n0 nd0 Hin0) as Hf0. cbn [v_nodes] in Hf0.
    rewrite (is_apex_ext c n0 n), (occluded_ext c l n0 n) in Hf0 by auto.
    pose proof (owner_entry c l n0 nd0 S Hin0) as Hoe. rewrite E0 in Hoe.
    assert (Hm1 : al_mem n d = true -> has_ns nd0 = true /\ is_apex c n = false).
    { intros Hm. apply Hmem in Hm as [Ho _]. apply Hoe in Ho as [H1 H2]. split; auto.
      apply is_apex_false_key; auto. }
    assert (Hm2 : has_ns nd0 = true -> is_apex c n = false -> occluded c l n = false -> al_mem n d = true).
    { intros H1 H2 H3. apply Hmem. split.
      - apply Hoe. split; auto. apply is_apex_false_key; auto.
      - apply occluded_false_iff; auto. }
    destruct (name_in n ch) eqn:Ech.
    + (* the node was already copied in this version *)
      cbn [v_nodes v_delegs v_changed] in H.
      destruct (Hder nd0) as [Hfl Hrds]; [right; exact Hf0|exact Hm1|exact Hm2|].
      match type of H with (mkVer (al_update n ?x l) d ch, _) = _ => set (nd' := x) in * end.
      assert (End : nd' = nd0).
      { rewrite <- (node_eta nd'), <- (node_eta nd0). f_equal; auto. rewrite Hfl. auto. }
      clearbody nd'. subst nd'. inversion H; subst v1 nd.
      assert (D : Desc l (al_update n nd0 l) n (Some (n0, nd0)) idtr).
      { eapply D_update; eauto. eapply D_refl; eauto. }
      split; [|split; [reflexivity|split]].
      * eapply (Inv_same_occ c l d ch _ d ch n (Some (n0, nd0)) idtr); eauto.
        -- apply al_update_sorted; auto.
        -- apply (inv_sd c _ HI).
        -- intros k. apply occP_ext. intros x. rewrite (Desc_owner c _ _ _ _ _ D) by auto.
           split.
           ++ intros [[_ Hx]|[-> (e & He & _ & Hns)]]; auto. inversion He; subst e.
              exists n0, nd0. auto.
           ++ intros Hx. destruct (key_eq_dec x (K n)) as [->|Hne]; auto. right. split; auto.
              exists (n0, nd0). repeat split; auto. destruct Hx as (m & nd1 & Hin1 & Hns1 & E1).
              assert ((m, nd1) = (n0, nd0)) by (eapply sorted_functional; eauto; congruence). congruence.
        -- intros k _. rewrite (Desc_owner c _ _ _ _ _ D) by auto. split.
           ++ intros [[_ Hx]|[-> (e & He & _ & Hns)]]; auto. inversion He; subst e.
              exists n0, nd0. auto.
           ++ intros Hx. destruct (key_eq_dec k (K n)) as [->|Hne]; auto. right. split; auto.
              exists (n0, nd0). repeat split; auto. destruct Hx as (m & nd1 & Hin1 & Hns1 & E1).
              assert ((m, nd1) = (n0, nd0)) by (eapply sorted_functional; eauto; congruence). congruence.
        -- intros n1 nd1 He. inversion He; subst. exact Hf0.
        -- tauto.
        -- intros e He. inversion He; subst e. cbn [snd]. apply (inv_nd c _ HI n0 nd0 Hin0).
      * exists n0. split; auto. cbn [v_nodes]. apply D. right. auto.
      * cbn [v_nodes]. rewrite G0. reflexivity.
    + (* copy on write: a new node object with the same rdatasets *)
      cbn [v_nodes v_delegs v_changed] in H.
      destruct (Hder (mkNode 0 (nrds nd0))) as [Hfl Hrds]; [left; reflexivity|exact Hm1|exact Hm2|].
      cbn [nflags nrds] in Hfl, Hrds. change (has_ns (mkNode 0 (nrds nd0))) with (has_ns nd0) in Hfl.
      match type of H with (mkVer (al_update n ?x _) d _, _) = _ => set (nd' := x) in * end.
      assert (Hfl' : nflags nd' = spec (has_ns nd0)) by exact Hfl.
      assert (Hrds' : nrds nd' = nrds nd0) by exact Hrds.
      clearbody nd'. clear Hfl Hrds.
      inversion H; subst v1 nd.
      assert (D : Desc l (al_update n nd' (al_set n (mkNode 0 (nrds nd0)) l)) n (Some (n, nd')) idtr).
      { eapply D_update; eauto; [apply al_set_sorted; auto|apply D_set; auto]. }
      assert (Hns' : has_ns nd' = has_ns nd0) by (apply has_ns_rds; auto).
      assert (Hown : forall x, owner c (al_update n nd' (al_set n (mkNode 0 (nrds nd0)) l)) x <-> owner c l x).
      { intros x. rewrite (Desc_owner c _ _ _ _ _ D) by auto. split.
        - intros [[_ Hx]|[-> (e & He & _ & Hns)]]; auto. inversion He; subst e.
          exists n0, nd0. repeat split; auto. unfold ns_owner in *. cbn [fst snd] in *.
          rewrite <- Hns', <- (is_apex_ext c n n0); auto.
        - intros Hx. destruct (key_eq_dec x (K n)) as [->|Hne]; auto. right. split; auto.
          exists (n, nd'). repeat split; auto. destruct Hx as (m & nd1 & Hin1 & Hns1 & E1).
          assert ((m, nd1) = (n0, nd0)) by (eapply sorted_functional; eauto; congruence).
          inversion H0; subst. unfold ns_owner in *. cbn [fst snd] in *.
          rewrite Hns', (is_apex_ext c n n0); auto. }
      split; [|split; [reflexivity|split]].
      * eapply (Inv_same_occ c l d ch _ d _ n (Some (n, nd')) idtr); eauto.
        -- apply al_update_sorted, al_set_sorted; auto.
        -- apply (inv_sd c _ HI).
        -- intros k. apply occP_ext. exact Hown.
        -- intros n1 nd1 He. injection He as <- <-. rewrite Hfl', Hns'. reflexivity.
        -- tauto.
        -- intros e He. inversion He; subst e. cbn [snd]. rewrite Hrds'. apply (inv_nd c _ HI n0 nd0 Hin0).
      * exists n. split; auto. cbn [v_nodes]. apply D. right. auto.
      * cbn [v_nodes]. rewrite G0. exact Hrds'.
  - (* a new, empty node *)
    cbn [v_nodes v_delegs v_changed] in H.
    assert (Hno : ~ owner c l (K n)) by (apply owner_absent; auto).
    destruct (Hder (mkNode 0 [])) as [Hfl Hrds]; [left; reflexivity| | |].
    { intros Hm. apply Hmem in Hm as [Ho _]. contradiction. }
    { cbn. discriminate. }
    cbn [nflags nrds] in Hfl, Hrds. change (has_ns (mkNode 0 [])) with false in Hfl.
    match type of H with (mkVer (al_update n ?x _) d _, _) = _ => set (nd' := x) in * end.
    assert (Hfl' : nflags nd' = spec false) by exact Hfl.
    assert (Hrds' : nrds nd' = []) by exact Hrds.
    clearbody nd'. clear Hfl Hrds.
    inversion H; subst v1 nd.
    assert (D : Desc l (al_update n nd' (al_set n (mkNode 0 []) l)) n (Some (n, nd')) idtr).
    { eapply D_update; eauto; [apply al_set_sorted; auto|apply D_set; auto]. }
    assert (Hns' : has_ns nd' = false) by (unfold has_ns; rewrite Hrds'; reflexivity).
    assert (Hown : forall x, owner c (al_update n nd' (al_set n (mkNode 0 []) l)) x <-> owner c l x).
    { intros x. rewrite (Desc_owner c _ _ _ _ _ D) by auto. split.
      - intros [[_ Hx]|[-> (e & He & _ & Hns)]]; auto. inversion He; subst e.
        unfold ns_owner in Hns. cbn [fst snd] in Hns. rewrite Hns' in Hns. discriminate.
      - intros Hx. left. split; auto. intros ->. contradiction. }
    split; [|split; [reflexivity|split]].
    + eapply (Inv_same_occ c l d ch _ d _ n (Some (n, nd')) idtr); eauto.
      * apply al_update_sorted, al_set_sorted; auto.
      * apply (inv_sd c _ HI).
      * intros k. apply occP_ext. exact Hown.
      * intros n1 nd1 He. injection He as <- <-. rewrite Hfl', Hns'. reflexivity.
      * tauto.
      * intros e He. inversion He; subst e. cbn [snd]. rewrite Hrds'. constructor.
    + exists n. split; auto. cbn [v_nodes]. apply D. right. auto.
    + cbn [v_nodes]. rewrite G. exact Hrds'.
Qed.
