(* C17 - the premise "every public method body is one `with self.lock:` block", made explicit.

   `atomic c` says whether the method behind call c is such a critical section.  A method that
   is not runs unprotected: it reads the shared object at some point (U_begin, the snapshot) and
   writes back what it computed from that snapshot later (U_end) - other threads may run in
   between.  The guarded LTS `gstep` is the LTS of Proofs/CacheConc.v plus these two rules.

   guarded_linearizable : if every method is atomic, every guarded execution is an execution of
     CacheConc's LTS, hence linearizable.
   unlocked_put_loses_update : if `put` is not atomic the conclusion fails (a lost update).

   The table `atomic` for dns/resolver.py is regenerated from the source on every run
   (harness/pC17.py, generated_obligations) together with the theorem guard_ok that all its
   entries are true; the expected statement skeletons of the modelled methods are below. *)
From Coq Require Import String.
From DV Require Import Base.Prelude Model.CacheM Proofs.CacheConc.

Inductive meth := MGet | MPut | MFlush | MSetMax | MHitsFor | MHits | MMisses | MSnapshot | MReset.

Definition meth_of (c : call) : meth :=
  match c with
  | Get _ => MGet | Put _ _ => MPut | Flush _ => MFlush | SetMax _ => MSetMax
  | HitsFor _ => MHitsFor | Hits => MHits | Misses => MMisses | Snapshot => MSnapshot
  | ResetStats => MReset
  end.

Definition all_meths : list meth :=
  [MGet; MPut; MFlush; MSetMax; MHitsFor; MHits; MMisses; MSnapshot; MReset].

Lemma all_meths_complete : forall m, In m all_meths.
Proof. destruct m; cbn; tauto. Qed.

Lemma guard_all : forall (tbl : meth -> bool), forallb tbl all_meths = true ->
  forall c, tbl (meth_of c) = true.
Proof.
  intros tbl H c. rewrite forallb_forall in H. apply H. apply all_meths_complete.
Qed.

Section Guarded.
  Context {St : Type}.
  Variable step : call -> St -> clk -> res (ret * St * clk).
  Variable atomic : call -> bool.

  (* configuration: CacheConc's, plus for each thread the unprotected call in flight (if any)
     with the snapshot of the object it read *)
  Definition gconf := (@conf St * (nat -> option (call * St)))%type.

  Inductive glabel :=
  | GL (l : label)
  | GUBegin (t : nat) (c : call)
  | GUEnd (t : nat) (c : call) (ds : list Z).

  Definition rupd (f : nat -> option (call * St)) (t : nat) (v : option (call * St)) :=
    fun x => if Nat.eqb x t then v else f x.

  Inductive gstep : gconf -> glabel -> gconf -> Prop :=
  | G_lift : forall cf rc l cf',
      cstep step cf l cf' ->
      (forall t c, l = LAcq t -> cf_ph cf t = Waiting c -> atomic c = true) ->
      gstep (cf, rc) (GL l) (cf', rc)
  | G_ubegin : forall cf rc t c,
      cf_ph cf t = Waiting c -> atomic c = false -> rc t = None ->
      gstep (cf, rc) (GUBegin t c) (cf, rupd rc t (Some (c, cf_obj cf)))
  | G_uend : forall cf rc t c snap ds r s' k',
      cf_ph cf t = Waiting c -> rc t = Some (c, snap) ->
      Forall (fun d => 0 <= d) ds ->
      step c snap (mkClk (cf_now cf) ds) = Ok (r, s', k') ->
      gstep (cf, rc) (GUEnd t c ds)
            (mkConf s' (now k') (cf_lock cf) (upd (cf_ph cf) t (Released c r)), rupd rc t None).

  Inductive gexec : gconf -> list glabel -> gconf -> Prop :=
  | GE_nil : forall g, gexec g [] g
  | GE_cons : forall g l g1 ls g2, gstep g l g1 -> gexec g1 ls g2 -> gexec g (l :: ls) g2.

  Definition ginit (s : St) (t0 : Z) : gconf := (init_conf s t0, fun _ => None).

  Definition no_race (g : gconf) : Prop := forall t, snd g t = None.

  (* with every method atomic, the unprotected rules never fire: a guarded execution is an
     execution of CacheConc's LTS *)
  Lemma gexec_exec : (forall c, atomic c = true) ->
    forall g ls g', gexec g ls g' -> no_race g ->
    exists ls', ls = map GL ls' /\ exec step (fst g) ls' (fst g') /\ no_race g'.
  Proof.
    intros methods_atomic. induction 1 as [g|g l g1 ls g2 Hs He IH]; intros Hnr.
    - exists []. split; [reflexivity|]. split; [constructor|exact Hnr].
    - inversion Hs as [cf rc l0 cf' Hc Ha|cf rc t c Hph Hat Hr|cf rc t c snap ds r s' k' Hph Hr Hds Hst]; subst.
      + destruct IH as [ls' [-> [Hex Hnr']]]; [exact Hnr|].
        exists (l0 :: ls'). split; [reflexivity|]. split; [|exact Hnr'].
        cbn [fst] in *. econstructor; eauto.
      + rewrite methods_atomic in Hat. discriminate.
      + exfalso. specialize (Hnr t). cbn [snd] in Hnr. congruence.
  Qed.

  (* Linearizability under the premise that every method body is one critical section. *)
  Theorem guarded_linearizable : (forall c, atomic c = true) ->
    forall s t0 ls g,
    gexec (ginit s t0) ls g ->
    exists ls' rs,
      ls = map GL ls' /\
      exec step (init_conf s t0) ls' (fst g) /\
      wrun step (witness ls') (s, t0) = Ok (rs, (cf_obj (fst g), cf_now (fst g))) /\
      forall t, thread_results t (witness_tid ls') rs = responses t ls' ++ pending (cf_ph (fst g) t).
  Proof.
    intros HA s t0 ls g He.
    destruct (gexec_exec HA _ _ _ He) as [ls' [E [Hex _]]]; [intros t; reflexivity|].
    cbn [fst ginit] in Hex.
    destruct (linearizable step s t0 ls' (fst g) Hex) as [rs [H1 H2]].
    exists ls', rs. auto.
  Qed.
End Guarded.

(* ------------------------------------------------------------------ the premise is needed *)
(* Cache.put as an unprotected method: two threads store different keys, both read the empty
   dict before either writes back - one update is lost, which no sequential order of the two
   calls can produce. *)
Definition put_unprotected (c : call) : bool := match c with Put _ _ => false | _ => true end.

Definition lost_update_run : list (@glabel) :=
  [GL (LInv 0 (Put 1 (mkAns 1 100))); GL (LInv 1 (Put 2 (mkAns 2 100)));
   GUBegin 0 (Put 1 (mkAns 1 100)); GUBegin 1 (Put 2 (mkAns 2 100));
   GUEnd 0 (Put 1 (mkAns 1 100)) []; GUEnd 1 (Put 2 (mkAns 2 100)) []].

Definition cache0 : cache := mkCache [] 300 300 0 0.

Lemma unlocked_put_loses_update :
  exists g,
    gexec cache_step put_unprotected (ginit cache0 0) lost_update_run g /\
    dkeys (c_data (cf_obj (fst g))) = [2] /\
    (* both sequential orders keep both keys *)
    (forall its, its = [Call (Put 1 (mkAns 1 100)) []; Call (Put 2 (mkAns 2 100)) []] \/
                 its = [Call (Put 2 (mkAns 2 100)) []; Call (Put 1 (mkAns 1 100)) []] ->
       exists rs w, wrun cache_step its (cache0, 0) = Ok (rs, w) /\ length (c_data (fst w)) = 2%nat).
Proof.
  eexists. split; [|split].
  - unfold lost_update_run, ginit.
    eapply GE_cons. { apply G_lift; [apply S_inv; reflexivity|intros; discriminate]. }
    eapply GE_cons. { apply G_lift; [apply S_inv; reflexivity|intros; discriminate]. }
    eapply GE_cons. { apply G_ubegin; reflexivity. }
    eapply GE_cons. { apply G_ubegin; reflexivity. }
    eapply GE_cons. { eapply G_uend; [reflexivity|reflexivity|constructor|reflexivity]. }
    eapply GE_cons. { eapply G_uend; [reflexivity|reflexivity|constructor|reflexivity]. }
    apply GE_nil.
  - reflexivity.
  - intros its [->| ->]; eexists; eexists; split; reflexivity.
Qed.
