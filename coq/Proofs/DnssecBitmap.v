(* Bitmap.from_rdtypes: the blocks decode to exactly the set of (non-zero) types given, in a
   well-formed encoding (RFC 4034 4.1.2: windows increasing, 1..32 octets, no trailing zero octet). *)
From Coq Require Import Permutation Sorted.
From DV Require Import Base.Prelude Model.NameM Model.DnssecM Proofs.DnssecRef Proofs.DnssecSort.
Open Scope Z_scope.
Ltac Zify.zify_post_hook ::= Z.to_euclidean_division_equations.

(* ------------------------------------------------------------------ sorted(rdtypes) *)
Lemma sort_ints_perm l : Permutation l (sort_ints l).
Proof.
  apply (py_sorted_perm Z.ltb Z.le); intros; lia.
Qed.
Lemma sort_ints_sorted l : StronglySorted Z.le (sort_ints l).
Proof.
  apply (py_sorted_sorted Z.ltb Z.le); intros; lia.
Qed.

(* ------------------------------------------------------------------ octets: finite facts *)
Definition lor_fact (n b j : nat) : bool :=
  let o := Z.of_nat n in
  let v := Z.lor o (Z.shiftr 128 (Z.of_nat b)) in
  Bool.eqb (bit_set v j) (bit_set o j || Nat.eqb j b) && (0 <=? v) && (v <? 256).

Lemma lor_fact_all :
  forallb (fun n => forallb (fun b => forallb (fun j => lor_fact n b j) (seq 0 8)) (seq 0 8)) (seq 0 256) = true.
Proof. vm_compute. reflexivity. Qed.

Lemma lor_octet o b j :
  0 <= o < 256 -> (b < 8)%nat -> (j < 8)%nat ->
  let v := Z.lor o (Z.shiftr 128 (Z.of_nat b)) in
  bit_set v j = (bit_set o j || Nat.eqb j b) /\ 0 <= v < 256.
Proof.
  intros Ho Hb Hj. pose proof lor_fact_all as H. rewrite forallb_forall in H.
  specialize (H (Z.to_nat o)). rewrite in_seq in H. specialize (H ltac:(lia)).
  rewrite forallb_forall in H. specialize (H b). rewrite in_seq in H. specialize (H ltac:(lia)).
  rewrite forallb_forall in H. specialize (H j). rewrite in_seq in H. specialize (H ltac:(lia)).
  unfold lor_fact in H. rewrite Z2Nat.id in H by lia.
  apply andb_true_iff in H as [H H3]. apply andb_true_iff in H as [H1 H2].
  apply eqb_prop in H1. cbv zeta. split; [exact H1|lia].
Qed.

Lemma bit_set_zero j : bit_set 0 j = false.
Proof. unfold bit_set. apply Z.testbit_0_l. Qed.

(* ------------------------------------------------------------------ lists *)
Lemma nth_set_nth : forall (l : list Z) k v i,
  (k < length l)%nat -> nth i (set_nth k v l) 0 = if Nat.eqb i k then v else nth i l 0.
Proof.
  induction l as [|x l IH]; intros k v i Hk; [cbn in Hk; lia|].
  destruct k as [|k]; destruct i as [|i]; cbn [set_nth nth Nat.eqb]; try reflexivity.
  apply IH. cbn in Hk. lia.
Qed.

Lemma set_nth_length : forall (l : list Z) k v, length (set_nth k v l) = length l.
Proof. induction l as [|x l IH]; intros [|k] v; cbn; auto. Qed.

Lemma nth_firstn : forall (l : list Z) k i, (i < k)%nat -> nth i (firstn k l) 0 = nth i l 0.
Proof.
  induction l as [|x l IH]; intros [|k] [|i] H; cbn; try reflexivity; try lia.
  apply IH. lia.
Qed.

Lemma last_firstn : forall (l : list Z) k, (1 <= k <= length l)%nat -> last (firstn k l) 0 = nth (k - 1) l 0.
Proof.
  induction l as [|x l IH]; intros k Hk; [cbn in Hk; lia|].
  destruct k as [|[|k]]; [lia|reflexivity|].
  cbn [length] in Hk. replace (S (S k) - 1)%nat with (S k) by lia. cbn [nth].
  specialize (IH (S k) ltac:(lia)). replace (S k - 1)%nat with k in IH by lia. rewrite <- IH.
  cbn [firstn]. destruct l as [|y l]; [cbn in Hk; lia|]. reflexivity.
Qed.

Lemma nth_repeat0 n i : nth i (repeat 0 n) 0 = 0.
Proof. revert i. induction n; intros [|i]; cbn; auto. Qed.

(* ------------------------------------------------------------------ decoding: membership *)
Lemma octet_types_in w i o t :
  In t (octet_types w i o) <->
  exists j, (j < 8)%nat /\ bit_set o j = true /\ t = w * 256 + Z.of_nat i * 8 + Z.of_nat j.
Proof.
  unfold octet_types. rewrite in_map_iff. split.
  - intros (j & <- & Hj). apply filter_In in Hj as [Hs Hb]. apply in_seq in Hs. exists j. repeat split; auto; lia.
  - intros (j & Hj & Hb & ->). exists j. split; [reflexivity|]. apply filter_In. split; [apply in_seq; lia|exact Hb].
Qed.

Lemma block_types_in : forall bm w i0 t,
  In t (block_types w i0 bm) <->
  exists i j, (i < length bm)%nat /\ (j < 8)%nat /\ bit_set (nth i bm 0) j = true /\
              t = w * 256 + Z.of_nat (i0 + i) * 8 + Z.of_nat j.
Proof.
  induction bm as [|o r IH]; intros w i0 t; cbn [block_types].
  - split; [intros []|intros (i & j & H & _); cbn in H; lia].
  - rewrite in_app_iff, octet_types_in, IH. split.
    + intros [(j & Hj & Hb & ->)|(i & j & Hi & Hj & Hb & ->)].
      * exists 0%nat, j. cbn [nth length]. repeat split; auto; try lia; try (now rewrite Nat.add_0_r).
      * exists (S i), j. cbn [nth length]. repeat split; auto; try lia; try (f_equal; f_equal; lia).
    + intros (i & j & Hi & Hj & Hb & ->). destruct i as [|i].
      * left. exists j. cbn [nth] in Hb. repeat split; auto; try lia; try (now rewrite Nat.add_0_r).
      * right. exists i, j. cbn [nth length] in *. repeat split; auto; try lia; try (f_equal; f_equal; lia).
Qed.

(* ------------------------------------------------------------------ decoding: order *)
Fixpoint all_lt (l : list Z) (b : Z) : Prop := match l with [] => True | x :: r => x < b /\ all_lt r b end.
Fixpoint all_ge (l : list Z) (b : Z) : Prop := match l with [] => True | x :: r => b <= x /\ all_ge r b end.

Lemma strictly_increasing_app a b m :
  strictly_increasing a -> strictly_increasing b -> all_lt a m -> all_ge b m -> strictly_increasing (a ++ b).
Proof.
  induction a as [|x a IH]; intros Ha Hb La Gb; [exact Hb|].
  cbn [app]. destruct Ha as [H1 Ha]. destruct La as [Lx La]. cbn [strictly_increasing]. split.
  - destruct a as [|y a]; cbn [app].
    + destruct b as [|z b]; [exact Logic.I|]. destruct Gb. lia.
    + exact H1.
  - apply IH; auto.
Qed.

Lemma all_lt_app a b m : all_lt a m -> all_lt b m -> all_lt (a ++ b) m.
Proof. induction a; cbn; tauto. Qed.
Lemma all_ge_app a b m : all_ge a m -> all_ge b m -> all_ge (a ++ b) m.
Proof. induction a; cbn; tauto. Qed.
Lemma all_lt_mono l m m' : m <= m' -> all_lt l m -> all_lt l m'.
Proof. induction l; cbn; intuition lia. Qed.
Lemma all_ge_mono l m m' : m' <= m -> all_ge l m -> all_ge l m'.
Proof. induction l; cbn; intuition lia. Qed.

Lemma octet_types_order w i o :
  let base := w * 256 + Z.of_nat i * 8 in
  strictly_increasing (octet_types w i o) /\ all_ge (octet_types w i o) base /\ all_lt (octet_types w i o) (base + 8).
Proof.
  cbv zeta. unfold octet_types.
  assert (G : forall k n, strictly_increasing (map (fun j => w * 256 + Z.of_nat i * 8 + Z.of_nat j) (filter (bit_set o) (seq k n)))
              /\ all_ge (map (fun j => w * 256 + Z.of_nat i * 8 + Z.of_nat j) (filter (bit_set o) (seq k n))) (w * 256 + Z.of_nat i * 8 + Z.of_nat k)
              /\ all_lt (map (fun j => w * 256 + Z.of_nat i * 8 + Z.of_nat j) (filter (bit_set o) (seq k n))) (w * 256 + Z.of_nat i * 8 + Z.of_nat (k + n))).
  { intros k n. revert k. induction n as [|n IH]; intros k; [cbn; auto|].
    cbn [seq filter]. destruct (IH (S k)) as (S1 & G1 & L1).
    destruct (bit_set o k).
    - cbn [map strictly_increasing all_ge all_lt]. repeat split.
      + destruct (map _ (filter _ (seq (S k) n))) as [|y r] eqn:E; [exact Logic.I|]. destruct G1. lia.
      + exact S1.
      + lia.
      + eapply all_ge_mono; [|exact G1]. lia.
      + lia.
      + eapply all_lt_mono; [|exact L1]. lia.
    - repeat split; auto.
      + eapply all_ge_mono; [|exact G1]. lia.
      + eapply all_lt_mono; [|exact L1]. lia. }
  destruct (G 0%nat 8%nat) as (S1 & G1 & L1). split; [exact S1|]. split.
  - eapply all_ge_mono; [|exact G1]. lia.
  - eapply all_lt_mono; [|exact L1]. lia.
Qed.

Lemma block_types_order : forall bm w i,
  let base := w * 256 + Z.of_nat i * 8 in
  strictly_increasing (block_types w i bm) /\ all_ge (block_types w i bm) base
  /\ all_lt (block_types w i bm) (base + 8 * Z.of_nat (length bm)).
Proof.
  induction bm as [|o r IH]; intros w i; cbv zeta; cbn [block_types length]; [cbn; auto|].
  destruct (octet_types_order w i o) as (S1 & G1 & L1). destruct (IH w (S i)) as (S2 & G2 & L2).
  repeat split.
  - eapply strictly_increasing_app; eauto. eapply all_ge_mono; [|exact G2]. lia.
  - apply all_ge_app; auto. eapply all_ge_mono; [|exact G2]. lia.
  - apply all_lt_app; [eapply all_lt_mono; [|exact L1]; lia|eapply all_lt_mono; [|exact L2]; lia].
Qed.

Lemma bitmap_types_order : forall ws last,
  windows_increasing last ws -> Forall (fun wb => (length (snd wb) <= 32)%nat) ws ->
  strictly_increasing (bitmap_types ws) /\ all_ge (bitmap_types ws) ((last + 1) * 256).
Proof.
  induction ws as [|[w bm] r IH]; intros last Hw Hl; [cbn; auto|].
  cbn [windows_increasing] in Hw. destruct Hw as [H1 H2]. inversion Hl as [|? ? Hb Hr]; subst. cbn [snd] in Hb.
  unfold bitmap_types. cbn [flat_map fst snd]. fold (bitmap_types r).
  destruct (block_types_order bm w 0) as (S1 & G1 & L1). cbn [Z.of_nat] in *.
  destruct (IH w H2 Hr) as (S2 & G2).
  split.
  - eapply (strictly_increasing_app _ _ ((w + 1) * 256)); eauto. eapply all_lt_mono; [|exact L1]. lia.
  - apply all_ge_app; [eapply all_ge_mono; [|exact G1]; lia|eapply all_ge_mono; [|exact G2]; lia].
Qed.

(* two strictly increasing lists with the same members are equal *)
Lemma strictly_increasing_head_min : forall l x, strictly_increasing (x :: l) -> forall y, In y l -> x < y.
Proof.
  induction l as [|z l IH]; intros x [H1 H2] y Hy; [destruct Hy|].
  destruct Hy as [<-|Hy]; [exact H1|]. assert (z < y) by (apply IH; auto). lia.
Qed.

Lemma strictly_increasing_ext : forall a b,
  strictly_increasing a -> strictly_increasing b -> (forall t, In t a <-> In t b) -> a = b.
Proof.
  induction a as [|x a IH]; intros b Sa Sb H.
  - destruct b as [|y b]; [reflexivity|]. exfalso. apply (H y). now left.
  - destruct b as [|y b]; [exfalso; apply (H x); now left|].
    assert (x = y).
    { assert (Hx : In x (y :: b)) by (apply H; now left). assert (Hy : In y (x :: a)) by (apply H; now left).
      destruct Hx as [->|Hx]; [reflexivity|]. destruct Hy as [->|Hy]; [reflexivity|].
      pose proof (strictly_increasing_head_min _ _ Sa _ Hy). pose proof (strictly_increasing_head_min _ _ Sb _ Hx). lia. }
    subst y. f_equal. apply IH; [apply Sa|apply Sb|].
    intros t. split; intros Ht.
    + assert (In t (x :: b)) as [<-|?] by (apply H; now right); [|assumption].
      pose proof (strictly_increasing_head_min _ _ Sa _ Ht). lia.
    + assert (In t (x :: a)) as [<-|?] by (apply H; now right); [|assumption].
      pose proof (strictly_increasing_head_min _ _ Sb _ Ht). lia.
Qed.

(* ------------------------------------------------------------------ the reference type set *)
(* the loop's own de-duplication of a sorted list, starting from prior_rdtype *)
Fixpoint dedup_from (prior : Z) (l : list Z) : list Z :=
  match l with
  | [] => []
  | x :: r => if x =? prior then dedup_from prior r else x :: dedup_from x r
  end.

Lemma dedup_from_spec : forall l prior,
  StronglySorted Z.le l -> Forall (fun x => prior <= x) l ->
  (forall t, In t (dedup_from prior l) <-> In t l /\ t <> prior)
  /\ strictly_increasing (dedup_from prior l) /\ all_ge (dedup_from prior l) (prior + 1).
Proof.
  induction l as [|x r IH]; intros prior Hs Hp; [cbn; intuition|].
  inversion Hs as [|? ? Hr Hx]; subst. inversion Hp as [|? ? Hpx Hpr]; subst.
  cbn [dedup_from]. destruct (x =? prior) eqn:E.
  - apply Z.eqb_eq in E. subst x. destruct (IH prior Hr Hpr) as (M & S & G).
    split; [|split; assumption]. intros t. rewrite M. cbn [In]. split; [tauto|].
    intros [[<-|Ht] Hn]; [congruence|tauto].
  - apply Z.eqb_neq in E. destruct (IH x Hr Hx) as (M & S & G).
    split; [|split].
    + intros t. cbn [In]. rewrite M. split.
      * intros [<-|[Ht Hn]]; [split; [now left|exact E]|]. split; [now right|].
        rewrite Forall_forall in Hx. specialize (Hx _ Ht). intros ->. lia.
      * intros [[<-|Ht] Hn]; [now left|]. destruct (Z.eq_dec t x) as [->|Hne]; [now left|]. right. tauto.
    + cbn [strictly_increasing]. split; [|exact S].
      destruct (dedup_from x r) as [|y r'] eqn:Ed; [exact Logic.I|]. destruct G. lia.
    + cbn [all_ge]. split; [lia|]. eapply all_ge_mono; [|exact G]. lia.
Qed.

(* ------------------------------------------------------------------ the loop invariant *)
Definition in_range16 (P : list Z) : Prop := Forall (fun t => 1 <= t <= 65535) P.

Lemma si_last_max : forall P, strictly_increasing P -> forall t, In t P -> t <= last P 0.
Proof.
  induction P as [|x P IH]; intros S t Ht; [destruct Ht|].
  destruct P as [|y P]; [destruct Ht as [<-|[]]; cbn; lia|].
  change (last (x :: y :: P) 0) with (last (y :: P) 0).
  destruct S as [H1 S]. destruct Ht as [<-|Ht]; [|now apply IH].
  assert (y <= last (y :: P) 0) by (apply IH; [exact S|now left]). lia.
Qed.

Lemma last_in : forall (P : list Z), P <> [] -> In (last P 0) P.
Proof.
  induction P as [|x P IH]; [congruence|]. intros _. destruct P as [|y P]; [now left|].
  right. apply IH. discriminate.
Qed.

Lemma si_snoc P t : strictly_increasing P -> last P 0 < t -> (P = [] \/ True) -> strictly_increasing (P ++ [t]).
Proof.
  intros S Hl _. destruct P as [|x P]; [cbn; auto|].
  eapply (strictly_increasing_app _ _ t); [exact S|cbn; auto| |cbn; split; [lia|exact Logic.I]].
  assert (M := si_last_max _ S). clear S.
  assert (G : forall l, (forall u, In u l -> u <= last (x :: P) 0) -> all_lt l t).
  { induction l as [|u l IHl]; intros Hu; [exact Logic.I|]. split; [specialize (Hu u (or_introl eq_refl)); lia|].
    apply IHl. intros v Hv. apply Hu. now right. }
  apply G. exact M.
Qed.

Lemma windows_increasing_snoc : forall ws last w bm,
  windows_increasing last ws -> Forall (fun wb => fst wb < w) ws -> last < w ->
  windows_increasing last (ws ++ [(w, bm)]).
Proof.
  induction ws as [|[w0 b0] r IH]; intros last w bm H1 H2 H3; cbn [app windows_increasing]; [auto|].
  destruct H1 as [H1 H1']. inversion H2; subst. cbn [fst] in *. split; [exact H1|]. apply IH; auto.
Qed.

Lemma bitmap_types_app a b : bitmap_types (a ++ b) = bitmap_types a ++ bitmap_types b.
Proof. unfold bitmap_types. apply flat_map_app. Qed.

Lemma Forall_set_nth (Pp : Z -> Prop) : forall l k v, Forall Pp l -> Pp v -> Forall Pp (set_nth k v l).
Proof.
  induction l as [|x l IH]; intros [|k] v Hl Hv; cbn; auto; inversion Hl; subst; constructor; auto.
Qed.

Lemma Forall_firstn {A} (Pp : A -> Prop) : forall k l, Forall Pp l -> Forall Pp (firstn k l).
Proof. induction k as [|k IH]; intros [|x l] H; cbn; auto. inversion H; subst. constructor; auto. Qed.

Lemma Forall_repeat0 n : Forall (fun o => 0 <= o < 256) (repeat 0 n).
Proof. induction n; cbn; constructor; auto; lia. Qed.

Lemma nth_byte_range (l : bytes) i : Forall (fun o => 0 <= o < 256) l -> 0 <= nth i l 0 < 256.
Proof. intros H. revert i. induction H as [|x l Hx _ IH]; intros [|i]; cbn; auto; lia. Qed.

Record Inv (s : bst) (P : list Z) : Prop := {
  inv_prior : b_prior s = last P 0;
  inv_len : length (b_bitmap s) = 32%nat;
  inv_bytes : Forall (fun o => 0 <= o < 256) (b_bitmap s);
  inv_empty : P = [] -> b_octets s = 0 /\ b_window s = 0 /\ b_windows s = [];
  inv_cur : P <> [] -> b_window s = b_prior s / 256 /\ b_octets s = (b_prior s mod 256) / 8 + 1;
  inv_bits : forall i j, (i < 32)%nat -> (j < 8)%nat ->
      (bit_set (nth i (b_bitmap s) 0) j = true <-> In (b_window s * 256 + Z.of_nat i * 8 + Z.of_nat j) P);
  inv_old : forall t, In t (bitmap_types (b_windows s)) <-> In t P /\ t / 256 < b_window s;
  inv_wf_inc : windows_increasing (-1) (b_windows s);
  inv_wf_lt : Forall (fun wb => fst wb < b_window s) (b_windows s);
  inv_wf_blk : Forall block_wf (b_windows s) }.

Lemma inv_init : Inv bm_init [].
Proof.
  constructor; unfold bm_init; cbn [b_prior b_bitmap b_window b_octets b_windows last].
  - reflexivity.
  - apply repeat_length.
  - apply Forall_repeat0.
  - auto.
  - congruence.
  - intros i j _ _. rewrite nth_repeat0, bit_set_zero. split; [discriminate|intros []].
  - intros t. cbn. tauto.
  - exact Logic.I.
  - constructor.
  - constructor.
Qed.

(* what bm_flush yields under the invariant *)
Lemma flush_spec s P :
  Inv s P -> strictly_increasing P -> in_range16 P ->
  (forall t, In t (bitmap_types (bm_flush s)) <-> In t P)
  /\ windows_increasing (-1) (bm_flush s)
  /\ Forall block_wf (bm_flush s)
  /\ Forall (fun wb => fst wb <= b_window s) (bm_flush s).
Proof.
  intros I S R. unfold bm_flush.
  destruct P as [|p0 P0] eqn:EP.
  - destruct (inv_empty _ _ I eq_refl) as (Ho & Hw & Hws). rewrite Ho, Hws. cbn. repeat split; auto; tauto.
  - rewrite <- EP in *. assert (Pne : P <> []) by (rewrite EP; discriminate).
    destruct (inv_cur _ _ I Pne) as (Hw & Ho).
    assert (Hin : In (b_prior s) P) by (rewrite (inv_prior _ _ I); now apply last_in).
    assert (Hpr : 1 <= b_prior s <= 65535) by (unfold in_range16 in R; rewrite Forall_forall in R; auto).
    replace (negb (b_octets s =? 0)) with true by lia.
    set (oct := Z.to_nat (b_octets s)).
    assert (Hoct : (1 <= oct <= 32)%nat) by (unfold oct; lia).
    assert (Hlen : length (firstn oct (b_bitmap s)) = oct) by (rewrite firstn_length, (inv_len _ _ I); lia).
    (* membership of the current block *)
    assert (Hblk : forall t, In t (block_types (b_window s) 0 (firstn oct (b_bitmap s))) <-> In t P /\ t / 256 = b_window s).
    { intros t. rewrite block_types_in. split.
      - intros (i & j & Hi & Hj & Hb & ->). rewrite Hlen in Hi. rewrite nth_firstn in Hb by exact Hi.
        apply (inv_bits _ _ I) in Hb; [|lia|exact Hj]. cbn [Nat.add]. split; [exact Hb|]. lia.
      - intros [Ht Hq]. assert (t <= b_prior s) by (rewrite (inv_prior _ _ I); now apply si_last_max).
        assert (1 <= t) by (unfold in_range16 in R; rewrite Forall_forall in R; specialize (R _ Ht); lia).
        exists (Z.to_nat ((t mod 256) / 8)), (Z.to_nat ((t mod 256) mod 8)).
        assert ((Z.to_nat ((t mod 256) / 8) < oct)%nat) by (unfold oct; lia).
        rewrite Hlen. repeat split; [assumption|lia| |cbn [Nat.add]; lia].
        rewrite nth_firstn by assumption. apply (inv_bits _ _ I); [lia|lia|].
        replace (b_window s * 256 + Z.of_nat (Z.to_nat (t mod 256 / 8)) * 8 + Z.of_nat (Z.to_nat ((t mod 256) mod 8))) with t by lia.
        exact Ht. }
    repeat split.
    + rewrite bitmap_types_app, in_app_iff. unfold bitmap_types at 2. cbn [flat_map fst snd]. rewrite app_nil_r.
      rewrite Hblk, (inv_old _ _ I). intros [[? ?]|[? ?]]; assumption.
    + intros Ht. rewrite bitmap_types_app, in_app_iff. unfold bitmap_types at 2. cbn [flat_map fst snd]. rewrite app_nil_r.
      rewrite Hblk, (inv_old _ _ I).
      assert (t <= b_prior s) by (rewrite (inv_prior _ _ I); now apply si_last_max).
      assert (1 <= t) by (unfold in_range16 in R; rewrite Forall_forall in R; specialize (R _ Ht); lia).
      destruct (Z.eq_dec (t / 256) (b_window s)); [right; tauto|left; split; [exact Ht|lia]].
    + apply windows_increasing_snoc; [apply (inv_wf_inc _ _ I)|apply (inv_wf_lt _ _ I)|lia].
    + apply Forall_app. split; [apply (inv_wf_blk _ _ I)|]. constructor; [|constructor].
      unfold block_wf. cbn [fst snd]. rewrite Hlen. repeat split; try lia.
      * apply Forall_firstn, (inv_bytes _ _ I).
      * rewrite last_firstn by (rewrite (inv_len _ _ I); lia).
        intros Hz.
        assert (Hb : bit_set (nth (oct - 1) (b_bitmap s) 0) (Z.to_nat ((b_prior s mod 256) mod 8)) = true).
        { apply (inv_bits _ _ I); [lia|lia|].
          replace (b_window s * 256 + Z.of_nat (oct - 1) * 8 + Z.of_nat (Z.to_nat ((b_prior s mod 256) mod 8))) with (b_prior s)
            by (unfold oct; lia).
          exact Hin. }
        rewrite Hz, bit_set_zero in Hb. discriminate.
    + apply Forall_app. split.
      * eapply Forall_impl; [|apply (inv_wf_lt _ _ I)]. intros wb; cbn; lia.
      * constructor; [cbn; lia|constructor].
Qed.

Lemma bm_step_skip s t : t = b_prior s -> bm_step s t = s.
Proof. intros ->. unfold bm_step. now rewrite Z.eqb_refl. Qed.

Lemma bm_step_inv s P t :
  Inv s P -> strictly_increasing P -> in_range16 P ->
  b_prior s < t <= 65535 ->
  Inv (bm_step s t) (P ++ [t]) /\ b_prior (bm_step s t) = t.
Proof.
  intros I S R Ht.
  assert (Hprior0 : 0 <= b_prior s).
  { rewrite (inv_prior _ _ I). destruct P as [|p P']; [cbn; lia|].
    assert (In (last (p :: P') 0) (p :: P')) by (apply last_in; discriminate).
    unfold in_range16 in R. rewrite Forall_forall in R. specialize (R _ H). lia. }
  assert (HPle : forall u, In u P -> 1 <= u <= b_prior s).
  { intros u Hu. split; [unfold in_range16 in R; rewrite Forall_forall in R; specialize (R _ Hu); lia|].
    rewrite (inv_prior _ _ I). now apply si_last_max. }
  assert (Hwin : b_window s = b_prior s / 256).
  { destruct P as [|p P']; [destruct (inv_empty _ _ I eq_refl) as (_ & -> & _); rewrite (inv_prior _ _ I); reflexivity|].
    apply (inv_cur _ _ I). discriminate. }
  unfold bm_step. replace (t =? b_prior s) with false by lia.
  set (byte := Z.to_nat ((t mod 256) / 8)). set (bit := Z.to_nat ((t mod 256) mod 8)).
  assert (Hbyte : (byte < 32)%nat) by (unfold byte; lia).
  assert (Hbit : (bit < 8)%nat) by (unfold bit; lia).
  assert (Ht_decomp : t = (t / 256) * 256 + Z.of_nat byte * 8 + Z.of_nat bit) by (unfold byte, bit; lia).
  replace (Z.to_nat (t mod 256 / 8)) with byte by reflexivity.
  replace (Z.shiftr 128 ((t mod 256) mod 8)) with (Z.shiftr 128 (Z.of_nat bit)) by (unfold bit; f_equal; lia).
  destruct (negb (t / 256 =? b_window s)) eqn:Ew.
  - (* a new window *)
    assert (Hgt : b_window s < t / 256) by lia.
    destruct (flush_spec s P I S R) as (Fm & Fi & Fb & Fl).
    destruct (lor_octet 0 bit bit ltac:(lia) Hbit Hbit) as [Hlb Hlr]. cbv zeta in Hlb, Hlr.
    split; [|reflexivity].
    constructor; cbn [b_prior b_bitmap b_window b_octets b_windows].
    + now rewrite last_last.
    + rewrite set_nth_length. apply repeat_length.
    + apply Forall_set_nth; [apply Forall_repeat0|]. rewrite nth_repeat0. exact Hlr.
    + intros E. destruct P; discriminate.
    + intros _. split; [reflexivity|]. unfold byte. lia.
    + intros i j Hi Hj. rewrite nth_set_nth by (rewrite repeat_length; exact Hbyte).
      rewrite in_app_iff. cbn [In]. destruct (Nat.eqb i byte) eqn:Ei.
      * apply Nat.eqb_eq in Ei. subst i. rewrite nth_repeat0.
        destruct (lor_octet 0 bit j ltac:(lia) Hbit Hj) as [Hl _]. cbv zeta in Hl. rewrite Hl, bit_set_zero. cbn [orb].
        split.
        -- intros Hjb. apply Nat.eqb_eq in Hjb. subst j. right. left. lia.
        -- intros [Hu|[Hu|[]]]; [apply HPle in Hu; lia|]. apply Nat.eqb_eq. lia.
      * apply Nat.eqb_neq in Ei. rewrite nth_repeat0, bit_set_zero. split; [discriminate|].
        intros [Hu|[Hu|[]]]; [apply HPle in Hu; lia|]. exfalso. apply Ei. lia.
    + intros u. rewrite Fm, in_app_iff. cbn [In]. split.
      * intros Hu. split; [now left|]. apply HPle in Hu. lia.
      * intros [[Hu|[<-|[]]] Hlt]; [exact Hu|lia].
    + exact Fi.
    + eapply Forall_impl; [|exact Fl]. intros wb; cbn; lia.
    + exact Fb.
  - (* the same window *)
    assert (Heq : t / 256 = b_window s) by lia.
    pose proof (nth_byte_range (b_bitmap s) byte (inv_bytes _ _ I)) as Hob.
    split; [|reflexivity].
    constructor; cbn [b_prior b_bitmap b_window b_octets b_windows].
    + now rewrite last_last.
    + rewrite set_nth_length. apply (inv_len _ _ I).
    + apply Forall_set_nth; [apply (inv_bytes _ _ I)|].
      now destruct (lor_octet _ bit bit Hob Hbit Hbit) as [_ Hr].
    + intros E. destruct P; discriminate.
    + intros _. split; [lia|]. unfold byte. lia.
    + intros i j Hi Hj. rewrite nth_set_nth by (rewrite (inv_len _ _ I); exact Hbyte).
      rewrite in_app_iff. cbn [In]. destruct (Nat.eqb i byte) eqn:Ei.
      * apply Nat.eqb_eq in Ei. subst i.
        destruct (lor_octet _ bit j Hob Hbit Hj) as [Hl _]. cbv zeta in Hl. rewrite Hl.
        rewrite orb_true_iff, (inv_bits _ _ I) by assumption. split.
        -- intros [Hu|Hjb]; [now left|]. apply Nat.eqb_eq in Hjb. subst j. right. left. lia.
        -- intros [Hu|[Hu|[]]]; [now left|]. right. apply Nat.eqb_eq. lia.
      * apply Nat.eqb_neq in Ei. rewrite (inv_bits _ _ I) by assumption. split; [now left|].
        intros [Hu|[Hu|[]]]; [exact Hu|]. exfalso. apply Ei. lia.
    + intros u. rewrite (inv_old _ _ I), in_app_iff. cbn [In]. split.
      * intros [Hu Hl]. split; [now left|exact Hl].
      * intros [[Hu|[<-|[]]] Hlt]; [tauto|lia].
    + apply (inv_wf_inc _ _ I).
    + apply (inv_wf_lt _ _ I).
    + apply (inv_wf_blk _ _ I).
Qed.

Lemma in_range16_snoc P t : in_range16 P -> 1 <= t <= 65535 -> in_range16 (P ++ [t]).
Proof. intros H Ht. apply Forall_app. split; [exact H|constructor; [exact Ht|constructor]]. Qed.

Lemma bm_loop_inv : forall l s P,
  Inv s P -> strictly_increasing P -> in_range16 P ->
  StronglySorted Z.le l -> Forall (fun x => b_prior s <= x <= 65535) l ->
  let P' := P ++ dedup_from (b_prior s) l in
  Inv (fold_left bm_step l s) P' /\ strictly_increasing P' /\ in_range16 P'.
Proof.
  induction l as [|x r IH]; intros s P I S R Hs Hb; cbv zeta.
  - cbn. rewrite app_nil_r. auto.
  - inversion Hs as [|? ? Hr Hx]; subst. inversion Hb as [|? ? Hbx Hbr]; subst.
    cbn [fold_left dedup_from]. destruct (x =? b_prior s) eqn:E.
    + apply Z.eqb_eq in E. rewrite (bm_step_skip s x E). apply IH; auto.
    + apply Z.eqb_neq in E.
      assert (Hp0 : 0 <= b_prior s).
      { rewrite (inv_prior _ _ I). destruct P as [|p P']; [cbn; lia|].
        assert (In (last (p :: P') 0) (p :: P')) by (apply last_in; discriminate).
        unfold in_range16 in R. rewrite Forall_forall in R. specialize (R _ H). lia. }
      destruct (bm_step_inv s P x I S R ltac:(lia)) as [I' Hp'].
      assert (S' : strictly_increasing (P ++ [x])).
      { apply si_snoc; auto. rewrite <- (inv_prior _ _ I). lia. }
      assert (R' : in_range16 (P ++ [x])) by (apply in_range16_snoc; [exact R|lia]).
      specialize (IH (bm_step s x) (P ++ [x]) I' S' R' Hr).
      rewrite Hp' in IH. rewrite <- app_assoc in IH. cbn [app] in IH. apply IH.
      apply Forall_forall. intros y Hy. rewrite Forall_forall in Hx, Hbr.
      specialize (Hx _ Hy). specialize (Hbr _ Hy). cbn in *. lia.
Qed.

(* ------------------------------------------------------------------ Bitmap.__init__ accepts it *)
Lemma bm_check_wf : forall ws last,
  windows_increasing last ws -> Forall block_wf ws -> bm_check last ws = true.
Proof.
  induction ws as [|[w bm] r IH]; intros last Hi Hb; [reflexivity|].
  destruct Hi as [H1 H2]. inversion Hb as [|? ? Hw Hr]; subst.
  destruct Hw as ((W0 & W1) & (L0 & L1) & _). cbn [fst snd] in *.
  cbn [bm_check]. rewrite (IH w H2 Hr). unfold zlen.
  replace (w <=? last) with false by lia. replace (w >? 256) with false by lia.
  replace (Z.of_nat (length bm) =? 0) with false by lia.
  replace (Z.of_nat (length bm) >? 32) with false by lia. reflexivity.
Qed.

(* the type set the RFC encoding stands for: the distinct non-zero members, ascending *)
Definition type_set (ts : list Z) : list Z := dedup_from 0 (sort_ints ts).

Lemma type_set_spec ts :
  Forall (fun t => 0 <= t <= 65535) ts ->
  strictly_increasing (type_set ts) /\ (forall t, In t (type_set ts) <-> In t ts /\ t <> 0).
Proof.
  intros H. unfold type_set.
  assert (Hf : Forall (fun x => 0 <= x) (sort_ints ts)).
  { eapply Permutation_Forall; [apply sort_ints_perm|]. eapply Forall_impl; [|exact H]. intros; cbn in *; lia. }
  destruct (dedup_from_spec (sort_ints ts) 0 (sort_ints_sorted ts) Hf) as (M & S & _).
  split; [exact S|]. intros t. rewrite M. split; intros [Hin Hn]; (split; [|exact Hn]).
  - eapply Permutation_in; [symmetry; apply sort_ints_perm|exact Hin].
  - eapply Permutation_in; [apply sort_ints_perm|exact Hin].
Qed.

Theorem from_rdtypes_exact ts :
  Forall (fun t => 0 <= t <= 65535) ts ->
  exists ws, from_rdtypes ts = Ok ws /\ bitmap_wf ws /\ bitmap_types ws = type_set ts.
Proof.
  intros H. unfold from_rdtypes.
  assert (Hf : Forall (fun x => b_prior bm_init <= x <= 65535) (sort_ints ts)).
  { eapply Permutation_Forall; [apply sort_ints_perm|]. exact H. }
  destruct (bm_loop_inv (sort_ints ts) bm_init [] inv_init Logic.I (Forall_nil _) (sort_ints_sorted ts) Hf)
    as (I & S & R).
  cbn [app] in *. change (b_prior bm_init) with 0 in *. fold (type_set ts) in *.
  set (s := fold_left bm_step (sort_ints ts) bm_init) in *.
  destruct (flush_spec s (type_set ts) I S R) as (Fm & Fi & Fb & _).
  exists (bm_flush s). rewrite (bm_check_wf _ _ Fi Fb). split; [reflexivity|]. split; [split; assumption|].
  apply strictly_increasing_ext; [|exact S|exact Fm].
  eapply (proj1 (bitmap_types_order (bm_flush s) (-1) Fi _)).
  Unshelve. eapply Forall_impl; [|exact Fb]. intros wb (_ & (_ & L) & _). exact L.
Qed.

(* the encoding is canonical: a well-formed bitmap is determined by the set it decodes to is not
   needed for the property; what the property needs is the exact set and the bounds: *)
Corollary from_rdtypes_members ts :
  Forall (fun t => 0 <= t <= 65535) ts ->
  exists ws, from_rdtypes ts = Ok ws /\ bitmap_wf ws /\ strictly_increasing (bitmap_types ws) /\
             forall t, In t (bitmap_types ws) <-> In t ts /\ t <> 0.
Proof.
  intros H. destruct (from_rdtypes_exact ts H) as (ws & E & W & T). exists ws.
  destruct (type_set_spec ts H) as (S & M). rewrite T. auto.
Qed.

(* ------------------------------------------------------------------ the encoding is unique *)
(* an octet is determined by its set bits *)
Definition octet_inj_fact (n m : nat) : bool :=
  if forallb (fun j => Bool.eqb (bit_set (Z.of_nat n) j) (bit_set (Z.of_nat m) j)) (seq 0 8) then Nat.eqb n m else true.
Lemma octet_inj_all : forallb (fun n => forallb (fun m => octet_inj_fact n m) (seq 0 256)) (seq 0 256) = true.
Proof. vm_compute. reflexivity. Qed.

Lemma octet_inj o1 o2 :
  0 <= o1 < 256 -> 0 <= o2 < 256 -> (forall j, (j < 8)%nat -> bit_set o1 j = bit_set o2 j) -> o1 = o2.
Proof.
  intros H1 H2 Hb. pose proof octet_inj_all as H. rewrite forallb_forall in H.
  specialize (H (Z.to_nat o1)). rewrite in_seq in H. specialize (H ltac:(lia)).
  rewrite forallb_forall in H. specialize (H (Z.to_nat o2)). rewrite in_seq in H. specialize (H ltac:(lia)).
  unfold octet_inj_fact in H. rewrite !Z2Nat.id in H by lia.
  replace (forallb (fun j => Bool.eqb (bit_set o1 j) (bit_set o2 j)) (seq 0 8)) with true in H.
  - apply Nat.eqb_eq in H. lia.
  - symmetry. apply forallb_forall. intros j Hj. apply in_seq in Hj. rewrite Hb by lia. apply eqb_reflx.
Qed.

Lemma octet_types_inj w i o1 o2 :
  0 <= o1 < 256 -> 0 <= o2 < 256 -> octet_types w i o1 = octet_types w i o2 -> o1 = o2.
Proof.
  intros H1 H2 E. apply octet_inj; auto. intros j Hj.
  assert (G : forall o, bit_set o j = true <-> In (w * 256 + Z.of_nat i * 8 + Z.of_nat j) (octet_types w i o)).
  { intros o. rewrite octet_types_in. split.
    - intros Hb. exists j. auto.
    - intros (j' & Hj' & Hb & Eq). assert (j' = j) by lia. now subst. }
  destruct (bit_set o1 j) eqn:B1; destruct (bit_set o2 j) eqn:B2; auto.
  - apply G in B1. rewrite E in B1. apply G in B1. congruence.
  - apply G in B2. rewrite <- E in B2. apply G in B2. congruence.
Qed.

(* a nonzero octet has a bit set *)
Lemma octet_nonzero_types w i o : 0 <= o < 256 -> o <> 0 -> octet_types w i o <> [].
Proof.
  intros Ho Hn E. apply Hn. apply (octet_inj o 0); [exact Ho|lia|].
  intros j Hj. rewrite bit_set_zero. destruct (bit_set o j) eqn:B; [|reflexivity]. exfalso.
  assert (In (w * 256 + Z.of_nat i * 8 + Z.of_nat j) (octet_types w i o)) by (apply octet_types_in; eauto).
  rewrite E in H. destruct H.
Qed.

(* two concatenations split at the same bound are equal part by part *)
Lemma app_split_bound (l1 l2 m1 m2 : list Z) B :
  all_lt l1 B -> all_ge l2 B -> all_lt m1 B -> all_ge m2 B -> l1 ++ l2 = m1 ++ m2 -> l1 = m1 /\ l2 = m2.
Proof.
  revert m1. induction l1 as [|x l1 IH]; intros m1 L1 G2 M1 N2 E.
  - destruct m1 as [|y m1]; [auto|]. cbn in E. destruct l2 as [|z l2]; [discriminate|].
    inversion E; subst. destruct G2, M1. lia.
  - destruct m1 as [|y m1].
    + cbn in E. destruct m2 as [|z m2]; [discriminate|]. inversion E; subst. destruct L1, N2. lia.
    + cbn in E. inversion E; subst. destruct L1 as [_ L1], M1 as [_ M1].
      destruct (IH m1 L1 G2 M1 N2 H1) as [-> ->]. auto.
Qed.

Lemma block_types_inj w : forall bm1 bm2 i,
  Forall (fun o => 0 <= o < 256) bm1 -> Forall (fun o => 0 <= o < 256) bm2 ->
  last bm1 0 <> 0 \/ bm1 = [] -> last bm2 0 <> 0 \/ bm2 = [] ->
  block_types w i bm1 = block_types w i bm2 -> bm1 = bm2.
Proof.
  induction bm1 as [|o1 r1 IH]; intros bm2 i F1 F2 L1 L2 E.
  - destruct bm2 as [|o2 r2]; [reflexivity|]. exfalso. cbn [block_types] in E.
    (* the last octet of bm2 is nonzero, so bm2 decodes to something *)
    assert (G : forall (bm : bytes) k, Forall (fun o => 0 <= o < 256) bm -> bm <> [] -> last bm 0 <> 0 -> block_types w k bm <> []).
    { induction bm as [|o r IHb]; intros k F N L; [congruence|]. cbn [block_types].
      inversion F as [|? ? Fo Fr]; subst. destruct r as [|o' r'].
      - cbn in L. cbn [block_types]. rewrite app_nil_r. now apply octet_nonzero_types.
      - intros Eq. apply app_eq_nil in Eq as [_ Eq]. revert Eq. apply IHb; [exact Fr|discriminate|exact L]. }
    destruct L2 as [L2|L2]; [|discriminate]. symmetry in E. revert E. apply (G (o2 :: r2) i); [exact F2|discriminate|exact L2].
  - destruct bm2 as [|o2 r2].
    + exfalso. destruct L1 as [L1|L1]; [|discriminate].
      assert (G : forall (bm : bytes) k, Forall (fun o => 0 <= o < 256) bm -> bm <> [] -> last bm 0 <> 0 -> block_types w k bm <> []).
      { induction bm as [|o r IHb]; intros k F N L; [congruence|]. cbn [block_types].
        inversion F as [|? ? Fo Fr]; subst. destruct r as [|o' r'].
        - cbn in L. cbn [block_types]. rewrite app_nil_r. now apply octet_nonzero_types.
        - intros Eq. apply app_eq_nil in Eq as [_ Eq]. revert Eq. apply IHb; [exact Fr|discriminate|exact L]. }
      revert E. apply (G (o1 :: r1) i); [exact F1|discriminate|exact L1].
    + cbn [block_types] in E. inversion F1 as [|? ? Fo1 Fr1]; subst. inversion F2 as [|? ? Fo2 Fr2]; subst.
      destruct (octet_types_order w i o1) as (_ & _ & Lo1). destruct (octet_types_order w i o2) as (_ & _ & Lo2).
      destruct (block_types_order r1 w (S i)) as (_ & Gr1 & _). destruct (block_types_order r2 w (S i)) as (_ & Gr2 & _).
      cbv zeta in *.
      destruct (app_split_bound _ _ _ _ (w * 256 + Z.of_nat i * 8 + 8) Lo1
                  ltac:(eapply all_ge_mono; [|exact Gr1]; lia) Lo2
                  ltac:(eapply all_ge_mono; [|exact Gr2]; lia) E) as [Eo Er].
      apply octet_types_inj in Eo; auto. subst o2. f_equal.
      apply (IH r2 (S i)); auto.
      * destruct r1 as [|x r1']; [now right|left]. destruct L1 as [L1|L1]; [exact L1|discriminate].
      * destruct r2 as [|x r2']; [now right|left]. destruct L2 as [L2|L2]; [exact L2|discriminate].
Qed.

(* the first window of a well-formed encoding holds at least one type, all within the window *)
Lemma block_wf_types w bm : block_wf (w, bm) ->
  block_types w 0 bm <> [] /\ all_ge (block_types w 0 bm) (w * 256) /\ all_lt (block_types w 0 bm) (w * 256 + 256).
Proof.
  intros ((W0 & W1) & (L0 & L1) & F & Ln). cbn [fst snd] in *.
  destruct (block_types_order bm w 0) as (_ & G & L). cbv zeta in *. cbn [Z.of_nat] in *.
  split; [|split].
  - intros E. assert (bm = []) as ->; [|cbn in L0; lia].
    apply (block_types_inj w bm [] 0%nat); auto.
  - eapply all_ge_mono; [|exact G]. lia.
  - eapply all_lt_mono; [|exact L]. lia.
Qed.

Theorem bitmap_encoding_unique : forall a b,
  bitmap_wf a -> bitmap_wf b -> bitmap_types a = bitmap_types b -> a = b.
Proof.
  assert (G : forall a b la lb, windows_increasing la a -> Forall block_wf a -> windows_increasing lb b -> Forall block_wf b ->
              bitmap_types a = bitmap_types b -> a = b).
  { induction a as [|[w1 bm1] a IH]; intros b la lb Ia Fa Ib Fb E.
    - destruct b as [|[w2 bm2] b]; [reflexivity|]. exfalso.
      inversion Fb as [|? ? Fb1 _]; subst. destruct (block_wf_types _ _ Fb1) as (N & _ & _).
      unfold bitmap_types in E. cbn [flat_map fst snd] in E. symmetry in E. apply app_eq_nil in E as [E _]. contradiction.
    - destruct b as [|[w2 bm2] b].
      + exfalso. inversion Fa as [|? ? Fa1 _]; subst. destruct (block_wf_types _ _ Fa1) as (N & _ & _).
        unfold bitmap_types in E. cbn [flat_map fst snd] in E. apply app_eq_nil in E as [E _]. contradiction.
      + destruct Ia as [Ia1 Ia]. destruct Ib as [Ib1 Ib].
        inversion Fa as [|? ? Fa1 Fa']; subst. inversion Fb as [|? ? Fb1 Fb']; subst.
        destruct (block_wf_types _ _ Fa1) as (Na & Ga & La). destruct (block_wf_types _ _ Fb1) as (Nb & Gb & Lb).
        unfold bitmap_types in E. cbn [flat_map fst snd] in E. fold (bitmap_types a) in E. fold (bitmap_types b) in E.
        assert (Ra : all_ge (bitmap_types a) ((w1 + 1) * 256)).
        { apply (bitmap_types_order a w1 Ia). eapply Forall_impl; [|exact Fa']. intros wb (_ & (_ & L) & _). exact L. }
        assert (Rb : all_ge (bitmap_types b) ((w2 + 1) * 256)).
        { apply (bitmap_types_order b w2 Ib). eapply Forall_impl; [|exact Fb']. intros wb (_ & (_ & L) & _). exact L. }
        (* the first element decides the window *)
        assert (Ew : w1 = w2).
        { destruct (block_types w1 0 bm1) as [|x xs] eqn:E1; [congruence|].
          destruct (block_types w2 0 bm2) as [|y ys] eqn:E2; [congruence|].
          cbn [app] in E. inversion E; subst. destruct Ga, La, Gb, Lb. lia. }
        subst w2.
        destruct (app_split_bound _ _ _ _ ((w1 + 1) * 256)
                    ltac:(eapply all_lt_mono; [|exact La]; lia) Ra
                    ltac:(eapply all_lt_mono; [|exact Lb]; lia) Rb E) as [E1 E2].
        f_equal.
        * f_equal. destruct Fa1 as (_ & (La0 & _) & Fa1 & Lna). destruct Fb1 as (_ & (Lb0 & _) & Fb1 & Lnb). cbn [fst snd] in *.
          apply (block_types_inj w1 bm1 bm2 0%nat); auto.
        * apply (IH b w1 w1); auto. }
  intros a b [Ia Fa] [Ib Fb]. eapply G; eauto.
Qed.

(* hence: any well-formed encoding of the same type set IS what from_rdtypes returns *)
Corollary from_rdtypes_is_the_encoding ts ws' :
  Forall (fun t => 0 <= t <= 65535) ts ->
  bitmap_wf ws' -> bitmap_types ws' = type_set ts -> from_rdtypes ts = Ok ws'.
Proof.
  intros H W T. destruct (from_rdtypes_exact ts H) as (ws & E & Wf & Ty). rewrite E. f_equal.
  apply bitmap_encoding_unique; auto. congruence.
Qed.
