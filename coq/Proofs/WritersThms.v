(* C12 - the theorems about every reachable state of the writer protocol. *)
From DV Require Import Base.Prelude Model.VersM Model.WritersM.
From DV Require Import Proofs.VersInv Proofs.VersThms Proofs.WritersInv Proofs.WritersSerial Proofs.WritersNoFail.
Import VersM WritersM.

Local Open Scope nat_scope.

Record WInv (s : st) : Prop := mkWInv { w_a : InvA s; w_b : InvB s; w_c : InvC s; w_d : InvD s }.

Theorem winv_init progs : WInv (init progs).
Proof. constructor; [apply initA|apply initB|apply initC|apply initD]. Qed.

Theorem winv_step s t : WInv s -> enabled s t = true -> WInv (step s t).
Proof.
  intros [HA HB HC HD] He. constructor.
  - apply stepA; assumption.
  - apply stepB; [assumption|assumption|].
    intros id c Hpc.
    assert (Eid : id = next_id (versions (vz s))) by (apply (c_id s HC t); rewrite Hpc; reflexivity).
    destruct (vstep_commit (vz s) id c (c_inv s HC) (c_nowtxn s HC) Eid) as [z' [E _]]. eauto.
  - apply stepC; assumption.
  - apply stepD; assumption.
Qed.

Lemma winv_sched_step s t : WInv s -> WInv (sched_step s t).
Proof. intros H. unfold sched_step. destruct (enabled s t) eqn:E; [apply winv_step; assumption|exact H]. Qed.

Lemma winv_run sch : forall s, WInv s -> WInv (run_sched s sch).
Proof.
  induction sch as [|t sch IH]; intros s H; [exact H|].
  change (run_sched s (t :: sch)) with (run_sched (sched_step s t) sch). apply IH. apply winv_sched_step. exact H.
Qed.

(* any number of threads running any programs, under any schedule *)
Definition Reachable (s : st) : Prop := exists progs sch, s = run_sched (init progs) sch.

Theorem reachable_winv s : Reachable s -> WInv s.
Proof. intros [progs [sch ->]]. apply winv_run. apply winv_init. Qed.

(* ------------------------------------------------------------------ mutex *)

Lemma T_mutex s t1 t2 :
  Reachable s -> act (pcs s t1) = true -> act (pcs s t2) = true -> t1 = t2.
Proof.
  intros R H1 H2. pose proof (w_b s (reachable_winv s R)) as HB.
  pose proof (b_w2 s HB t1 H1). pose proof (b_w2 s HB t2 H2). congruence.
Qed.

Lemma T_write_txn_owner s t : Reachable s -> (wtxn s = Some t <-> act (pcs s t) = true).
Proof.
  intros R. pose proof (w_b s (reachable_winv s R)) as HB. split; [apply (b_w1 s HB)|apply (b_w2 s HB)].
Qed.

Lemma T_lock_mutex s t1 t2 :
  Reachable s -> holds_lock (pcs s t1) = true -> holds_lock (pcs s t2) = true -> t1 = t2.
Proof.
  intros R H1 H2. pose proof (w_a s (reachable_winv s R)) as HA.
  pose proof (a_holds_lock s HA t1 H1). pose proof (a_holds_lock s HA t2 H2). congruence.
Qed.

(* ------------------------------------------------------------------ fifo *)

Lemma T_fifo s :
  Reachable s ->
  arrivals s = granted s ++ wq s /\
  Forall2 (fun t e => wo (pcs s t) = Some e) (wq s) (Q s) /\
  (forall t e, wo (pcs s t) = Some e -> In t (wq s)).
Proof.
  intros R. pose proof (w_b s (reachable_winv s R)) as HB.
  split; [apply (b_f1 s HB)|]. split; [apply (b_q1 s HB)|apply (b_q2 s HB)].
Qed.

(* the next writer granted is the head of the queue, or - only when nobody is queued - a newcomer *)
Lemma T_admission_order s t ev :
  Reachable s -> pcs s t = Crit (CWriterTest ev) ->
  granted (step s t) = granted s ++ [t] ->
  (exists rest, ev <> None /\ wq s = t :: rest /\ wq (step s t) = rest) \/
  (ev = None /\ wq s = [] /\ wq (step s t) = []).
Proof.
  intros R Hpc Hadm. pose proof (w_b s (reachable_winv s R)) as HB.
  unfold step in *. rewrite Hpc in *. cbn [exec_crit] in *.
  destruct ((match wtxn s with None => true | Some _ => false end) && oeqb ev (wevent s)) eqn:Ht.
  - apply andb_true_iff in Ht. destruct Ht as [Hw Hev]. apply oeqb_eq in Hev.
    destruct (wtxn s) eqn:Ew; [discriminate|]. cbn.
    destruct ev as [e|].
    + left. assert (HQ : Q s = e :: waiters s) by (unfold Q; rewrite <- Hev; reflexivity).
      destruct (queue_head s t e (waiters s) HB) as [wq' [Ewq _]]; [rewrite Hpc; reflexivity|exact HQ|].
      exists wq'. rewrite Ewq. repeat split; try discriminate; try reflexivity.
    + right. assert (Hws : waiters s = []) by (apply (b_x2 s HB); [exact Ew|symmetry; exact Hev]).
      assert (HQ : Q s = []) by (unfold Q; rewrite <- Hev, Hws; reflexivity).
      pose proof (b_q1 s HB) as F. rewrite HQ in F. inversion F. repeat split; reflexivity.
  - exfalso. cbn in Hadm. apply (f_equal (@length nat)) in Hadm. rewrite app_length in Hadm. cbn in Hadm. lia.
Qed.

(* ------------------------------------------------------------------ no lost wake-up *)

Lemma T_no_lost_wakeup s :
  Reachable s -> wtxn s = None -> wq s <> [] ->
  exists t e rest, wq s = t :: rest /\ wevent s = Some e /\ mem e (evset s) = true /\ wo (pcs s t) = Some e.
Proof.
  intros R Hw Hq. pose proof (w_b s (reachable_winv s R)) as HB.
  pose proof (b_q1 s HB) as F.
  destruct (wevent s) as [e|] eqn:Ee.
  - assert (HQ : Q s = e :: waiters s) by (unfold Q; rewrite Ee; reflexivity).
    rewrite HQ in F. inversion F as [|t0 e0 wq' ws' H0 F' E1 E2]; subst.
    exists t0, e, wq'. repeat split; [apply (b_s2 s HB); exact Ee|exact H0].
  - exfalso. assert (Hws : waiters s = []) by (apply (b_x2 s HB); assumption).
    assert (HQ : Q s = []) by (unfold Q; rewrite Ee, Hws; reflexivity).
    rewrite HQ in F. inversion F. congruence.
Qed.

(* ------------------------------------------------------------------ deadlock freedom *)

Lemma wo_enabled s t e :
  wo (pcs s t) = Some e -> mem e (evset s) = true -> lock s = None -> enabled s t = true.
Proof.
  intros Hwo Hset Hl. unfold enabled.
  destruct (pcs s t) as [[[e'|]| | | |]|[[e'|]| | | |]|nx|e'| | | | |]; cbn in Hwo; try discriminate; try reflexivity.
  - rewrite Hl. reflexivity.
  - inversion Hwo; subst. exact Hset.
Qed.

Lemma act_enabled s t : act (pcs s t) = true -> lock s = None -> enabled s t = true.
Proof.
  intros Ha Hl. unfold enabled.
  destruct (pcs s t) as [[]|[]|nx|e'| | | | |]; cbn in Ha; try discriminate; try reflexivity; rewrite Hl; reflexivity.
Qed.

Lemma T_deadlock_free s t :
  Reachable s -> pcs s t <> Done -> exists t', enabled s t' = true.
Proof.
  intros R Hnd. pose proof (reachable_winv s R) as [HA HB HC HD].
  destruct (lock s) as [t0|] eqn:Hl.
  - (* the holder of the lock can always move *)
    exists t0. pose proof (a_lock_holds s HA t0 Hl) as Hh. unfold enabled.
    destruct (pcs s t0); cbn in Hh; try discriminate; reflexivity.
  - destruct (enabled s t) eqn:He; [exists t; exact He|].
    (* t is blocked with the lock free: it sits in event.wait() on an unset event *)
    unfold enabled in He. rewrite Hl in He.
    destruct (pcs s t) as [c|c|nx|e| | | | |] eqn:Hpc; try discriminate; [|exfalso; apply Hnd; reflexivity].
    assert (Hin : In t (wq s)) by (apply (b_q2 s HB t e); rewrite Hpc; reflexivity).
    destruct (wtxn s) as [t1|] eqn:Hw.
    + (* somebody owns the write transaction and can go on *)
      exists t1. apply act_enabled; [apply (b_w1 s HB); exact Hw|exact Hl].
    + (* nobody does: then the head of the queue has been woken *)
      destruct (T_no_lost_wakeup s R Hw) as [t' [e' [rest [Eq [Ee [Hset Hwo]]]]]].
      { intros E. rewrite E in Hin. destruct Hin. }
      exists t'. apply (wo_enabled s t' e'); assumption.
Qed.

(* ------------------------------------------------------------------ serial equivalence *)

Lemma T_serial_equivalence s :
  Reachable s ->
  hist (vz s) = serial (map (prg s) (ended s)) /\
  granted s = ended s ++ match wtxn s with Some t => [t] | None => [] end /\
  (exists dropped, hist (vz s) = dropped ++ versions (vz s)) /\
  (exists v, last_opt (versions (vz s)) = Some v /\ last_opt (hist (vz s)) = Some v).
Proof.
  intros R. pose proof (w_c s (reachable_winv s R)) as HC.
  split; [apply (c_hist s HC)|]. split; [apply (c_adm s HC)|]. split; [apply (inv_suffix _ (c_inv s HC))|].
  destruct (inv_last _ (c_inv s HC)) as [v E]. exists v. split; [exact E|].
  apply inv_last_hist; [apply (c_inv s HC)|exact E].
Qed.

(* when every thread has finished: the zone is the serial application, in admission order, of the
   transactions of all writers *)
Lemma T_final_state s :
  Reachable s -> (forall t, pcs s t = Done) ->
  wtxn s = None /\ wq s = [] /\ arrivals s = granted s /\ ended s = granted s /\
  hist (vz s) = serial (map (prg s) (granted s)) /\
  last_opt (versions (vz s)) = last_opt (serial (map (prg s) (granted s))).
Proof.
  intros R Hd. pose proof (reachable_winv s R) as [HA HB HC HD].
  assert (Hw : wtxn s = None).
  { destruct (wtxn s) as [t|] eqn:E; [|reflexivity]. pose proof (b_w1 s HB t E) as Ha. rewrite Hd in Ha. discriminate. }
  assert (Hq : wq s = []).
  { destruct (wq s) as [|t r] eqn:E; [reflexivity|]. pose proof (b_q1 s HB) as F. rewrite E in F.
    inversion F as [|? ? ? ? Hwo]; subst. rewrite Hd in Hwo. discriminate. }
  pose proof (c_adm s HC) as Ea. rewrite Hw, app_nil_r in Ea.
  repeat split; try assumption.
  - rewrite (b_f1 s HB), Hq, app_nil_r. reflexivity.
  - symmetry. exact Ea.
  - rewrite Ea. apply (c_hist s HC).
  - destruct (T_serial_equivalence s R) as [Eh [_ [_ [v [E1 E2]]]]]. rewrite Ea, <- Eh, E1, E2. reflexivity.
Qed.

(* ------------------------------------------------------------------ the unlocked reads are safe *)

Lemma T_latest_stable_for_writer s t :
  Reachable s ->
  (forall id, wid_of (pcs s t) = Some id -> id = next_id (versions (vz s))) /\
  on_track (prg s t) (vz s) (pcs s t).
Proof.
  intros R. pose proof (w_c s (reachable_winv s R)) as HC. split; [apply (c_id s HC)|apply (c_track s HC)].
Qed.

Lemma T_commit_never_fails s t id c :
  Reachable s -> pcs s t = Crit (CEndWrite id c true) ->
  wtxn s = Some t /\
  exists z', VersM.step (vz_set_wtxn (vz s) (Some (mkW id c true))) WCommit = Ok (z', RUnit) /\
             hist z' = hist (vz s) ++ [mkV id c] /\ last_opt (versions z') = Some (mkV id c).
Proof.
  intros R Hpc. pose proof (reachable_winv s R) as [HA HB HC HD].
  split; [apply (b_w2 s HB); rewrite Hpc; reflexivity|].
  assert (Eid : id = next_id (versions (vz s))) by (apply (c_id s HC t); rewrite Hpc; reflexivity).
  destruct (vstep_commit (vz s) id c (c_inv s HC) (c_nowtxn s HC) Eid) as [z' [E [_ [_ [Hh Hl]]]]]. eauto.
Qed.

(* no assert, index operation or set.remove of any critical section ever fails *)
Lemma T_no_failure s : Reachable s -> failed s = None.
Proof. intros R. apply (d_nofail s (w_d s (reachable_winv s R))). Qed.

(* the ghost orders are append-only: nobody is ever inserted in front of a waiting writer *)
Lemma T_orders_append_only s t :
  Reachable s -> enabled s t = true ->
  (arrivals (step s t) = arrivals s \/ arrivals (step s t) = arrivals s ++ [t]) /\
  (granted (step s t) = granted s \/ granted (step s t) = granted s ++ [t]) /\
  (ended (step s t) = ended s \/ ended (step s t) = ended s ++ [t]).
Proof.
  intros R He. unfold step.
  destruct (pcs s t) as [c|c|nx|e| |id|id c ch [|e todo]|h i c|] eqn:Hpc; cbn; try tauto.
  destruct c as [ev|id c cm|sel|h|p].
  - cbn [exec_crit].
    destruct ((match wtxn s with None => true | Some _ => false end) && oeqb ev (wevent s));
      destruct ev; cbn; tauto.
  - cbn [exec_crit]. destruct (if cm then _ else _) as [[z r]|e|e]; try (cbn; tauto).
    destruct (wtxn s) as [t'|]; [|cbn; tauto]. destruct (Nat.eqb t' t); [|cbn; tauto].
    match goal with |- context [wakeup ?s0] => destruct (wakeup_fields s0) as [_ [_ [_ [_ [_ [_ [_ [W8 [W9 W10]]]]]]]]]; rewrite W8, W9, W10 end.
    cbn. tauto.
  - destruct (exec_crit_other s t (CReaderOpen sel)) as [nx [_ [_ [_ [_ [_ [_ [_ [_ [_ [_ [F7 [F8 F9]]]]]]]]]]]]]; try discriminate.
    rewrite F7, F8, F9. tauto.
  - destruct (exec_crit_other s t (CReaderEnd h)) as [nx [_ [_ [_ [_ [_ [_ [_ [_ [_ [_ [F7 [F8 F9]]]]]]]]]]]]]; try discriminate.
    rewrite F7, F8, F9. tauto.
  - destruct (exec_crit_other s t (CSetPolicy p)) as [nx [_ [_ [_ [_ [_ [_ [_ [_ [_ [_ [F7 [F8 F9]]]]]]]]]]]]]; try discriminate.
    rewrite F7, F8, F9. tauto.
Qed.

(* ------------------------------------------------------------------ readers *)

Lemma T_lock_only_in_critical_sections s t :
  Reachable s -> lock s = Some t ->
  holds_lock (pcs s t) = true /\ enabled s t = true /\
  (lock (step s t) = None \/ lock (step (step s t) t) = None).
Proof.
  intros R Hl. pose proof (reachable_winv s R) as [HA HB HC HD].
  pose proof (a_lock_holds s HA t Hl) as Hh. split; [exact Hh|].
  unfold enabled, step. destruct (pcs s t) as [c|c|nx| | | | | |] eqn:Hpc; cbn in Hh; try discriminate.
  - split; [reflexivity|]. right.
    destruct (exec_crit_shape s t c) as [nx [Ep _]].
    unfold step. rewrite Ep, upd_same. reflexivity.
  - split; [reflexivity|]. left. reflexivity.
Qed.

(* a reader at `with self._version_lock` can proceed unless another thread is inside a critical section at
   this very moment, and that thread frees the lock within two of its own (always enabled) steps;
   whether a write transaction is open, or how many writers wait, plays no role *)
Lemma T_reader_never_blocked_by_txn s t sel :
  Reachable s -> pcs s t = Acq (CReaderOpen sel) ->
  enabled s t = true \/
  exists t', lock s = Some t' /\ holds_lock (pcs s t') = true /\ enabled s t' = true /\
             (lock (step s t') = None \/ lock (step (step s t') t') = None).
Proof.
  intros R Hpc. unfold enabled at 1. rewrite Hpc. destruct (lock s) as [t'|] eqn:Hl; [right|left; reflexivity].
  exists t'. split; [reflexivity|]. apply T_lock_only_in_critical_sections; assumption.
Qed.

Lemma T_reader_sees_committed s t i c :
  Reachable s -> rsnap (pcs s t) = Some (i, c) ->
  In (mkV i c) (hist (vz s)) /\ hist (vz s) = serial (map (prg s) (ended s)).
Proof.
  intros R E. pose proof (w_c s (reachable_winv s R)) as HC. split; [apply (c_read s HC t i c E)|apply (c_hist s HC)].
Qed.

(* ------------------------------------------------------------------ progress *)

Definition weight (E : nat) (p : pc) : nat :=
  (fix w (p : pc) : nat :=
     match p with
     | Done => 0
     | Rel nx => S (w nx)
     | Crit (CEndWrite _ _ _) => 2
     | Acq (CEndWrite _ _ _) => 3
     | Body _ _ _ todo => 4 + length todo
     | SetupBase _ => 5 + E
     | SetupId => 6 + E
     | Crit (CWriterTest (Some _)) => 8 + E
     | Acq (CWriterTest (Some _)) => 9 + E
     | Wait _ => 10 + E
     | Crit (CWriterTest None) => 12 + E
     | Acq (CWriterTest None) => 13 + E
     | RBody _ _ _ => 4
     | Crit (CReaderOpen _) => 6
     | Acq (CReaderOpen _) => 7
     | Crit (CReaderEnd _) => 2
     | Acq (CReaderEnd _) => 3
     | Crit (CSetPolicy _) => 2
     | Acq (CSetPolicy _) => 3
     end) p.

Definition nedits (s : st) (t : nat) : nat := length (edits_of (prg s t)).

Lemma body_pc_weight E pr id c ch todo : weight E (body_pc pr id c ch todo) <= 4 + length todo /\
  (todo = [] -> weight E (body_pc pr id c ch todo) = 3).
Proof. destruct todo; cbn; split; intros; try discriminate; lia. Qed.

Lemma step_others s t t' : t' <> t -> pcs (step s t) t' = pcs s t' /\ prg (step s t) = prg s.
Proof.
  intros Hn. unfold step.
  destruct (pcs s t) as [c|c|nx|e| |id|id c ch [|e todo]|h i c|] eqn:Hpc; cbn;
    try (split; [apply upd_other; exact Hn|reflexivity]); try (split; reflexivity).
  destruct (exec_crit_shape s t c) as [nx [Ep [_ [_ Eprg]]]]. rewrite Ep, Eprg. split; [apply upd_other; exact Hn|reflexivity].
Qed.

Lemma step_prg s t : prg (step s t) = prg s.
Proof.
  unfold step.
  destruct (pcs s t) as [c|c|nx|e| |id|id c ch [|e todo]|h i c|] eqn:Hpc; cbn; try reflexivity.
  destruct (exec_crit_shape s t c) as [nx [_ [_ [_ Eprg]]]]. exact Eprg.
Qed.

(* every step strictly decreases the weight of the thread that moves (in particular a woken
   writer is granted: the loop in writer() runs at most twice) and leaves the others alone *)
Lemma T_progress s t :
  Reachable s -> enabled s t = true ->
  weight (nedits s t) (pcs (step s t) t) < weight (nedits s t) (pcs s t).
Proof.
  intros R He. pose proof (reachable_winv s R) as [HA HB HC HD].
  unfold step. unfold enabled in He.
  destruct (pcs s t) as [c|c|nx|e| |id|id c ch todo|h i c|] eqn:Hpc.
  - cbn. rewrite upd_same. destruct c as [[e|]| | | |]; cbn; lia.
  - destruct c as [ev|id c cm|sel|h|p].
    + cbn [exec_crit].
      destruct ((match wtxn s with None => true | Some _ => false end) && oeqb ev (wevent s)) eqn:Ht.
      * cbn. rewrite upd_same. destruct ev; cbn; lia.
      * destruct (enqueue_B s t ev HB Hpc Ht) as [-> _]. cbn. rewrite upd_same. cbn. lia.
    + destruct (exec_crit_shape s t (CEndWrite id c cm)) as [nx [Ep _]].
      assert (Hnx : pcs (exec_crit s t (CEndWrite id c cm)) t = Rel Done).
      { cbn [exec_crit]. destruct (if cm then _ else _) as [[z r]|e|e]; try (cbn; apply upd_same).
        destruct (wtxn s) as [t'|]; [|cbn; apply upd_same].
        destruct (Nat.eqb t' t); [|cbn; apply upd_same].
        match goal with |- pcs (wakeup ?s0) t = _ => destruct (wakeup_fields s0) as [_ [W _]]; rewrite W end.
        cbn. apply upd_same. }
      rewrite Hnx. cbn. lia.
    + cbn [exec_crit]. destruct (VersM.step (vz s) (sel_op sel)) as [[z [h i c|]]|e|e]; cbn; rewrite upd_same; cbn; lia.
    + cbn [exec_crit]. destruct (VersM.step (vz s) (Close h)) as [[z r]|e|e]; cbn; rewrite upd_same; cbn; lia.
    + cbn [exec_crit]. destruct (VersM.step (vz s) (SetPolicy p)) as [[z r]|e|e]; cbn; rewrite upd_same; cbn; lia.
  - cbn. rewrite upd_same. lia.
  - cbn. rewrite upd_same. cbn. lia.
  - cbn. rewrite upd_same. cbn. lia.
  - cbn [set_pc pcs]. rewrite upd_same.
    destruct (body_pc_weight (nedits s t) (prg s t) id (base_content (prg s t) (vz s)) false (edits_of (prg s t))) as [W _].
    change (weight (nedits s t) (SetupBase id)) with (5 + nedits s t).
    unfold nedits in *. lia.
  - destruct todo as [|e todo].
    + cbn [set_pc pcs]. rewrite upd_same.
      destruct (body_pc_weight (nedits s t) (prg s t) id c ch []) as [_ W]. rewrite (W eq_refl). cbn. lia.
    + cbn [set_pc pcs]. rewrite upd_same.
      destruct (body_pc_weight (nedits s t) (prg s t) id (fst (apply_edit e (c, ch))) (snd (apply_edit e (c, ch))) todo) as [W _].
      change (weight (nedits s t) (Body id c ch (e :: todo))) with (4 + S (length todo)). lia.
  - cbn. rewrite upd_same. cbn. lia.
  - discriminate.
Qed.

Lemma T_woken_writer_is_granted s t e :
  Reachable s -> pcs s t = Crit (CWriterTest (Some e)) ->
  pcs (step s t) t = Rel SetupId /\ wtxn (step s t) = Some t /\ granted (step s t) = granted s ++ [t].
Proof.
  intros R Hpc. pose proof (w_b s (reachable_winv s R)) as HB.
  destruct (woken_is_granted s t e HB) as [Hw He]; [rewrite Hpc; reflexivity|rewrite Hpc; reflexivity|].
  unfold step. rewrite Hpc. cbn [exec_crit]. rewrite Hw, He. cbn. rewrite Nat.eqb_refl. cbn.
  rewrite upd_same. repeat split; reflexivity.
Qed.

(* bounded runs: with finitely many unfinished threads every schedule of enabled steps is finite *)
Definition total (s : st) (ts : list nat) : nat :=
  list_sum (map (fun t => weight (nedits s t) (pcs s t)) ts).

Inductive valid_sched : st -> list nat -> Prop :=
| vs_nil s : valid_sched s []
| vs_cons s t sch : enabled s t = true -> valid_sched (step s t) sch -> valid_sched s (t :: sch).

Lemma total_step s t ts :
  Reachable s -> enabled s t = true -> NoDup ts -> In t ts -> total (step s t) ts < total s ts.
Proof.
  intros R He ND Hin. unfold total.
  induction ts as [|a ts IH]; [destruct Hin|].
  inversion ND as [|? ? Hna ND']; subst. simpl map. simpl list_sum.
  assert (Hprg : forall x, nedits (step s t) x = nedits s x) by (intros x; unfold nedits; rewrite step_prg; reflexivity).
  destruct Hin as [->|Hin].
  - assert (Hrest : map (fun x => weight (nedits (step s t) x) (pcs (step s t) x)) ts =
                    map (fun x => weight (nedits s x) (pcs s x)) ts).
    { apply map_ext_in. intros x Hx. rewrite Hprg. destruct (step_others s t x) as [E _]; [intros ->; contradiction|].
      rewrite E. reflexivity. }
    rewrite Hrest, Hprg. pose proof (T_progress s t R He). lia.
  - destruct (step_others s t a) as [E _]; [intros ->; contradiction|].
    rewrite E, Hprg. specialize (IH ND' Hin). lia.
Qed.

Lemma run_sched_snoc s sch t : run_sched s (sch ++ [t]) = sched_step (run_sched s sch) t.
Proof. unfold run_sched. rewrite fold_left_app. reflexivity. Qed.

Lemma reachable_step s t : Reachable s -> enabled s t = true -> Reachable (step s t).
Proof.
  intros [progs [sch ->]] He. exists progs, (sch ++ [t]).
  rewrite run_sched_snoc. unfold sched_step. rewrite He. reflexivity.
Qed.

Lemma enabled_not_done s t : enabled s t = true -> pcs s t <> Done.
Proof. unfold enabled. intros H E. rewrite E in H. discriminate. Qed.

Lemma T_runs_are_bounded sch : forall s ts,
  Reachable s -> NoDup ts -> (forall t, ~ In t ts -> pcs s t = Done) ->
  valid_sched s sch -> length sch <= total s ts.
Proof.
  induction sch as [|t sch IH]; intros s ts R ND Hcov V; [cbn; lia|].
  inversion V as [|? ? ? He V']; subst.
  assert (Hin : In t ts).
  { destruct (in_dec Nat.eq_dec t ts) as [H|H]; [exact H|]. exfalso. apply (enabled_not_done s t He). apply Hcov. exact H. }
  pose proof (total_step s t ts R He ND Hin) as Hlt.
  assert (Hcov' : forall t', ~ In t' ts -> pcs (step s t) t' = Done).
  { intros t' Hn. destruct (step_others s t t') as [E _]; [intros ->; contradiction|]. rewrite E. apply Hcov. exact Hn. }
  specialize (IH (step s t) ts (reachable_step s t R He) ND Hcov' V'). cbn [length]. lia.
Qed.
