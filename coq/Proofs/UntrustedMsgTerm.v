(* Termination of the message text reader: the `while 1` loop of _TextReader.read and the flags
   loops never exhaust the model's fuel.  Measure: characters left + 1 for an ungotten token.
   Every Tokenizer.get returns an ungotten token or consumes input (or reports EOF). *)
From DV Require Import Base.Prelude Model.NameM.
From DV Require Model.TokM Model.RdTextM Proofs.UntrustedText.
From DV Require Import Model.UntrustedTextM Proofs.UntrustedMsgText.
Open Scope Z_scope.

(* ---------- Tokenizer.get consumes ---------- *)
Lemma skip_ws_le ml i : (length (snd (T.skip_ws ml i)) <= length i)%nat.
Proof. apply UntrustedText.skip_ws_len. Qed.

Lemma skip_ws_count ml : forall i, (length (snd (T.skip_ws ml i)) + fst (T.skip_ws ml i) = length i)%nat.
Proof.
  induction i as [|c r IH]; cbn; [reflexivity|].
  destruct ((c =? 32) || (c =? 9)).
  - destruct (T.skip_ws ml r); cbn in *. lia.
  - destruct ((c =? 10) && T.ml_on ml).
    + destruct (T.skip_ws ml r); cbn in *. lia.
    + cbn. lia.
Qed.

Definition LenOk (n : nat) (r : res T.gl_res) : Prop :=
  match r with Ok (_, (rest, _, _)) => (length rest <= n)%nat | _ => True end.

Lemma lenok_finish n tok tt he ml X ml' q : (length X <= n)%nat ->
  LenOk n (do t <- T.finish tok tt he ml; Ok (t, (X, ml', q))).
Proof. intros H. destruct (T.finish tok tt he ml); cbn; auto. Qed.

Lemma get_loop_len : forall fuel wc i ml q tok tt he, LenOk (length i) (T.get_loop fuel wc i ml q tok tt he).
Proof.
  induction fuel as [|f IH]; intros wc i ml q tok tt he; cbn [T.get_loop]; [exact Logic.I|].
  assert (W : forall j n, (length j <= n)%nat -> forall wc ml q tok tt he, LenOk n (T.get_loop f wc j ml q tok tt he)).
  { intros j n Hj wc' ml' q' tok' tt' he'. specialize (IH wc' j ml' q' tok' tt' he').
    unfold LenOk in *. destruct (T.get_loop f wc' j ml' q' tok' tt' he') as [[t [[rest a] b]]|e|e]; auto. lia. }
  destruct i as [|c r].
  - destruct q; [exact Logic.I|].
    destruct (T.is_nil tok && negb (tt =? T.tQUOTED)); apply lenok_finish; cbn; lia.
  - cbn [length].
    destruct (T.is_delim q c).
    + destruct (T.is_nil tok && negb (tt =? T.tQUOTED)); [|apply lenok_finish; cbn; lia].
      destruct (c =? 40). { apply W. pose proof (skip_ws_le (S ml) r). lia. }
      destruct (c =? 41). { destruct ml as [|ml']; [exact Logic.I|]. apply W. pose proof (skip_ws_le ml' r). lia. }
      destruct (c =? 34). { destruct (negb q); apply W; [lia|]. pose proof (skip_ws_le ml r). lia. }
      destruct (c =? 10); [cbn; lia|].
      destruct (c =? 59); [|apply lenok_finish; lia].
      pose proof (UntrustedText.read_comment_len r []) as Hc.
      destruct (T.read_comment r []) as [cm rest]. cbn [snd] in Hc.
      destruct wc; [cbn; lia|].
      destruct rest as [|x rest'].
      * destruct ml; cbn; auto.
      * destruct ml; [cbn; cbn in Hc; lia|]. apply W. pose proof (skip_ws_le (S ml) rest'). cbn [length] in Hc. lia.
    + destruct (q && (c =? 10)); [exact Logic.I|].
      destruct (c =? 92).
      * destruct r as [|c2 r2]; [exact Logic.I|].
        destruct ((c2 =? 10) && negb q); [exact Logic.I|]. apply W. cbn. lia.
      * apply W. lia.
Qed.

(* at the start of a token (nothing accumulated) the first character is consumed *)
Lemma get_loop_progress fuel wc c r ml q he :
  LenOk (length r) (T.get_loop fuel wc (c :: r) ml q [] T.tIDENT he).
Proof.
  destruct fuel as [|f]; cbn [T.get_loop]; [exact Logic.I|].
  assert (W : forall j, (length j <= length r)%nat -> forall wc ml q tok tt he, LenOk (length r) (T.get_loop f wc j ml q tok tt he)).
  { intros j Hj wc' ml' q' tok' tt' he'. pose proof (get_loop_len f wc' j ml' q' tok' tt' he') as H.
    unfold LenOk in *. destruct (T.get_loop f wc' j ml' q' tok' tt' he') as [[t [[rest a] b]]|e|e]; auto. lia. }
  destruct (T.is_delim q c).
  - cbn [T.is_nil andb negb Z.eqb]. change (T.tIDENT =? T.tQUOTED) with false. cbn [negb andb].
    destruct (c =? 40). { apply W. apply skip_ws_le. }
    destruct (c =? 41). { destruct ml as [|ml']; [exact Logic.I|]. apply W. apply skip_ws_le. }
    destruct (c =? 34). { destruct (negb q); apply W; [lia|apply skip_ws_le]. }
    destruct (c =? 10); [cbn; lia|].
    destruct (c =? 59); [|apply lenok_finish; lia].
    pose proof (UntrustedText.read_comment_len r []) as Hc.
    destruct (T.read_comment r []) as [cm rest]. cbn [snd] in Hc.
    destruct wc; [cbn; lia|].
    destruct rest as [|x rest'].
    + destruct ml; cbn; auto; lia.
    + destruct ml; [cbn; cbn in Hc; lia|]. apply W. pose proof (skip_ws_le (S ml) rest'). cbn [length] in Hc. lia.
  - destruct (q && (c =? 10)); [exact Logic.I|].
    destruct (c =? 92).
    + destruct r as [|c2 r2]; [exact Logic.I|].
      destruct ((c2 =? 10) && negb q); [exact Logic.I|]. apply W. cbn. lia.
    + apply W. lia.
Qed.

(* the token returned at end of input is EOF *)
Lemma get_loop_nil fuel wc ml q he t rest ml' q' :
  T.get_loop fuel wc [] ml q [] T.tIDENT he = Ok (t, (rest, ml', q')) -> T.ttype t = T.tEOF /\ rest = [].
Proof.
  destruct fuel as [|f]; cbn [T.get_loop]; [discriminate|].
  destruct q; [discriminate|]. cbn [T.is_nil andb]. change (T.tIDENT =? T.tQUOTED) with false. cbn [negb].
  unfold T.finish. cbn [T.is_nil andb]. change (T.tDELIM =? T.tQUOTED) with false. cbn [negb].
  destruct ml; cbn [bind]; [|discriminate]. intros H; inversion H; subst. split; reflexivity.
Qed.

Lemma get_fresh_meas st wl wc t st' :
  T.get_fresh st wl wc = Ok (t, st') ->
  T.ungot st' = None /\
  ((length (T.inp st') < length (T.inp st))%nat \/ (T.ttype t = T.tEOF /\ (length (T.inp st') <= length (T.inp st))%nat)).
Proof.
  unfold T.get_fresh.
  pose proof (skip_ws_count (T.multiline st) (T.inp st)) as Hc.
  destruct (T.skip_ws (T.multiline st) (T.inp st)) as [skipped i1]. cbn [fst snd] in Hc.
  destruct (wl && negb (Nat.eqb skipped 0)) eqn:E.
  - intros H; inversion H; subst; cbn. split; [reflexivity|]. left.
    apply andb_true_iff in E as [_ E]. apply negb_true_iff, Nat.eqb_neq in E. lia.
  - unfold T.get_fuel.
    destruct i1 as [|c r].
    + destruct (T.get_loop (S (length (@nil Z))) wc [] (T.multiline st) (T.quoting st) [] T.tIDENT false) as [[t0 [[i2 ml] q]]|e|e] eqn:G; try discriminate.
      apply get_loop_nil in G as [Ht ->]. intros H; inversion H; subst; cbn. split; [reflexivity|]. right. split; [exact Ht|lia].
    + pose proof (get_loop_progress (S (length (c :: r))) wc c r (T.multiline st) (T.quoting st) false) as P.
      destruct (T.get_loop (S (length (c :: r))) wc (c :: r) (T.multiline st) (T.quoting st) [] T.tIDENT false) as [[t0 [[i2 ml] q]]|e|e]; try discriminate.
      cbn in P. intros H; inversion H; subst; cbn. split; [reflexivity|]. left. cbn [length] in Hc. lia.
Qed.

(* the measure: characters left, + 1 for an ungotten token other than EOF *)
Definition pend (o : option T.token) : nat :=
  match o with Some u => if T.ttype u =? T.tEOF then 0%nat else 1%nat | None => 0%nat end.
Definition mz (st : T.tstate) : nat := (length (T.inp st) + pend (T.ungot st))%nat.
Definition Pend (st : T.tstate) : Prop := match T.ungot st with Some u => T.ttype u <> T.tEOF | None => False end.

Lemma mz_le_meas st : (mz st <= meas st)%nat.
Proof. unfold mz, meas, pend. destruct (T.ungot st) as [u|]; [destruct (T.ttype u =? T.tEOF)|]; lia. Qed.

Lemma get_mz st wl wc t st' :
  T.get st wl wc = Ok (t, st') ->
  T.ungot st' = None /\ (mz st' <= mz st)%nat /\
  (Pend st -> (mz st' + 1 <= mz st)%nat) /\
  (T.ttype t <> T.tEOF -> (mz st' + 1 <= mz st)%nat).
Proof.
  unfold T.get, mz, Pend. destruct (T.ungot st) as [ut|] eqn:U.
  - set (stc := T.mkSt (T.inp st) (T.multiline st) (T.quoting st) None). cbv zeta. fold stc.
    assert (F : T.ttype ut <> T.tEOF -> forall wl wc, T.get_fresh stc wl wc = Ok (t, st') ->
                T.ungot st' = None /\ (length (T.inp st') + pend (T.ungot st') <= length (T.inp st) + pend (Some ut))%nat
                /\ (T.ttype ut <> T.tEOF -> (length (T.inp st') + pend (T.ungot st') + 1 <= length (T.inp st) + pend (Some ut))%nat)
                /\ (T.ttype t <> T.tEOF -> (length (T.inp st') + pend (T.ungot st') + 1 <= length (T.inp st) + pend (Some ut))%nat)).
    { intros Hne wl' wc' H. apply get_fresh_meas in H as [N H]. rewrite N. cbn [pend]. cbn in H.
      apply Z.eqb_neq in Hne. rewrite Hne. repeat split; auto; intros; lia. }
    assert (R : Ok (ut, stc) = Ok (t, st') ->
                T.ungot st' = None /\ (length (T.inp st') + pend (T.ungot st') <= length (T.inp st) + pend (Some ut))%nat
                /\ (T.ttype ut <> T.tEOF -> (length (T.inp st') + pend (T.ungot st') + 1 <= length (T.inp st) + pend (Some ut))%nat)
                /\ (T.ttype t <> T.tEOF -> (length (T.inp st') + pend (T.ungot st') + 1 <= length (T.inp st) + pend (Some ut))%nat)).
    { intros H; inversion H; subst; cbn [T.ungot T.inp pend stc].
      split; [reflexivity|]. split; [lia|].
      split; intros Hne; apply Z.eqb_neq in Hne; rewrite Hne; lia. }
    destruct (T.ttype ut =? T.tWS) eqn:E1.
    { destruct wl; [exact R|]. apply F. apply Z.eqb_eq in E1. rewrite E1. discriminate. }
    destruct (T.ttype ut =? T.tCOMMENT) eqn:E2.
    { destruct wc; [exact R|]. apply F. apply Z.eqb_eq in E2. rewrite E2. discriminate. }
    exact R.
  - intros H. apply get_fresh_meas in H as [N H]. rewrite N. cbn [pend].
    split; [reflexivity|]. split; [lia|]. split; [intros X; contradiction|].
    intros Hne. destruct H as [H|[H _]]; [lia|contradiction].
Qed.

Lemma unget_mz st t st' : T.unget st t = Ok st' ->
  (mz st' = mz st + pend (Some t))%nat /\ T.ungot st' = Some t.
Proof.
  unfold T.unget, mz. destruct (T.ungot st) eqn:U; [discriminate|].
  intros H; inversion H; subst; cbn [T.inp T.ungot]. split; [cbn [pend]; lia|reflexivity].
Qed.

(* get a token, put it back: nothing gained *)
Lemma get_unget_mz st wl wc t s1 s2 : T.get st wl wc = Ok (t, s1) -> T.unget s1 t = Ok s2 -> (mz s2 <= mz st)%nat.
Proof.
  intros G U. apply get_mz in G as (_ & A & _ & C). apply unget_mz in U as [U _]. rewrite U. cbn [pend].
  destruct (T.ttype t =? T.tEOF) eqn:E; [lia|]. apply Z.eqb_neq in E. specialize (C E). lia.
Qed.

Lemma unget_pend st t st' : T.unget st t = Ok st' -> T.ttype t <> T.tEOF -> Pend st' /\ (mz st' = mz st + 1)%nat.
Proof.
  intros U Hne. apply unget_mz in U as [U1 U2]. unfold Pend. rewrite U2. split; [exact Hne|].
  rewrite U1. cbn [pend]. apply Z.eqb_neq in Hne. rewrite Hne. reflexivity.
Qed.

Lemma eof_is_eol t : T.is_eol_or_eof t = false -> T.ttype t <> T.tEOF.
Proof. unfold T.is_eol_or_eof. intros H E. rewrite E in H. apply orb_false_iff in H as [_ H]. discriminate. Qed.

Lemma ident_not_eof t : T.is_identifier t = true -> T.ttype t <> T.tEOF.
Proof. unfold T.is_identifier. intros H E. rewrite E in H. discriminate. Qed.

(* a token reader that never leaves more than it found *)
Definition Le {A} (st : T.tstate) (r : res (A * T.tstate)) : Prop :=
  match r with Ok (_, st') => (mz st' <= mz st)%nat | _ => True end.

Lemma le_of {A} st (r : res (A * T.tstate)) v st' : Le st r -> r = Ok (v, st') -> (mz st' <= mz st)%nat.
Proof. intros H E. rewrite E in H. exact H. Qed.

Lemma le_bind {A B} st (r : res (A * T.tstate)) (k : A * T.tstate -> res (B * T.tstate)) :
  Le st r -> (forall a s1, (mz s1 <= mz st)%nat -> Le st (k (a, s1))) -> Le st (bind r k).
Proof. destruct r as [[a s1]|e|e]; cbn [bind Le]; auto. Qed.

Lemma le_pure {X B} st (p : res X) (k : X -> res (B * T.tstate)) : (forall x, Le st (k x)) -> Le st (bind p k).
Proof. destruct p; cbn [bind Le]; auto. Qed.

Lemma le_weaken {A} s1 st (r : res (A * T.tstate)) : Le s1 r -> (mz s1 <= mz st)%nat -> Le st r.
Proof. destruct r as [[a s2]|e|e]; cbn [Le]; auto. lia. Qed.

Lemma le_get st wl wc : Le st (T.get st wl wc).
Proof. unfold Le. destruct (T.get st wl wc) as [[t st']|e|e] eqn:G; auto. apply get_mz in G as (_ & A & _). exact A. Qed.

Lemma le_get0 st : Le st (T.get0 st).
Proof. apply le_get. Qed.

Lemma le_get_unescaped st : Le st (T.get_unescaped st).
Proof.
  unfold T.get_unescaped. apply le_bind; [apply le_get0|]. intros t s1 H.
  apply le_pure. intros x. exact H.
Qed.

Lemma le_get_uint m st b : Le st (T.get_uint m st b).
Proof. unfold T.get_uint. apply le_bind; [apply le_get_unescaped|]. intros t s1 H. apply le_pure. intros x. exact H. Qed.

Lemma le_get_int st b : Le st (T.get_int st b).
Proof. unfold T.get_int. apply le_bind; [apply le_get_unescaped|]. intros t s1 H. apply le_pure. intros x. exact H. Qed.

Lemma le_get_string st m : Le st (T.get_string st m).
Proof. unfold T.get_string. apply le_bind; [apply le_get_unescaped|]. intros t s1 H. apply le_pure. intros x. exact H. Qed.

Lemma le_get_identifier st : Le st (T.get_identifier st).
Proof. unfold T.get_identifier. apply le_bind; [apply le_get_unescaped|]. intros t s1 H. apply le_pure. intros x. exact H. Qed.

Lemma le_get_eol_tok st : Le st (T.get_eol_as_token st).
Proof.
  unfold T.get_eol_as_token. apply le_bind; [apply le_get0|]. intros t s1 H. cbn [fst].
  destruct (negb (T.is_eol_or_eof t)); cbn; auto.
Qed.

Lemma get_eol_mz st st' : get_eol st = Ok st' -> (mz st' <= mz st)%nat.
Proof.
  unfold get_eol. pose proof (le_get_eol_tok st) as H.
  destruct (T.get_eol_as_token st) as [[t s1]|e|e]; cbn [bind]; try discriminate.
  intros X; inversion X; subst. exact H.
Qed.

(* ---------- the reader ---------- *)
Lemma bind_ok {A B} (r : res A) (k : A -> res B) b : bind r k = Ok b -> exists a, r = Ok a /\ k a = Ok b.
Proof. destruct r as [a|e|e]; cbn [bind]; intros H; try discriminate. eauto. Qed.
Tactic Notation "ib" ident(H) "as" ident(a) ident(E) := apply bind_ok in H; destruct H as (a & E & H).

Definition NoFuel {A} (r : res A) : Prop := r <> Internal iFuelT.
Lemma fine_nofuel {A} (r : res A) : Fine r -> NoFuel r.
Proof. destruct r; cbn; intros H; try contradiction; discriminate. Qed.
Lemma nofuel_bind {A B} (r : res A) (k : A -> res B) :
  NoFuel r -> (forall a, r = Ok a -> NoFuel (k a)) -> NoFuel (bind r k).
Proof.
  destruct r as [a|e|e]; cbn [bind]; intros H1 H2; [apply H2; reflexivity|discriminate|].
  intros X; apply H1; inversion X; reflexivity.
Qed.

Section Term.
  Variable per_type_text : Z -> Z -> T.tstate -> res (unit * T.tstate).
  Variable pctx : RdTextM.pctx.
  Variable type_from_text : list Z -> res Z.
  Hypothesis type_lib : forall v e, type_from_text v = Lib e -> e = eUnknownRdatatype.
  (* tokenizer discipline of a per-type text parser: it never leaves more input than it found
     (it may put back the one token it read last) *)
  Hypothesis per_type_le : forall c t st, Le st (per_type_text c t st).

  Lemma flags_loop_term : forall fuel tbl st acc, (mz st < fuel)%nat ->
    NoFuel (flags_loop fuel tbl st acc) /\ Le st (flags_loop fuel tbl st acc).
  Proof.
    induction fuel as [|f IH]; intros tbl st acc Hf; [lia|]. cbn [flags_loop].
    destruct (T.get0 st) as [[tk s1]|e|e] eqn:G; cbn [bind fst snd]; try (split; [discriminate|exact Logic.I]).
    2:{ split; [|exact Logic.I]. pose proof (fine_get st false false) as F. unfold T.get0 in G. rewrite G in F. contradiction. }
    pose proof G as G'. apply get_mz in G as (N & A & _ & C).
    destruct (negb (T.is_identifier tk)) eqn:Ei.
    - destruct (T.unget s1 tk) as [s2|e|e] eqn:U; cbn [bind]; try (split; [discriminate|exact Logic.I]).
      + split; [discriminate|]. cbn [Le]. eapply get_unget_mz; eauto.
      + unfold T.unget in U. destruct (T.ungot s1); discriminate.
    - apply negb_false_iff in Ei. specialize (C (ident_not_eof tk Ei)).
      destruct (flags_from_text tbl (T.tvalue tk)); try (split; [discriminate|exact Logic.I]).
      destruct (IH tbl s1 (Z.lor acc a) ltac:(lia)) as [NF K]. split; [exact NF|].
      eapply le_weaken; [exact K|lia].
  Qed.

  Lemma header_line_term r : Pend (t_tok r) ->
    NoFuel (header_line r) /\ (forall r', header_line r = Ok r' -> (mz (t_tok r') + 1 <= mz (t_tok r))%nat).
  Proof.
    intros U. unfold header_line.
    destruct (T.get0 (t_tok r)) as [[tk st]|e|e] eqn:G; cbn [bind]; try (split; [discriminate|intros; discriminate]).
    2:{ split; [|intros; discriminate]. pose proof (fine_get (t_tok r) false false) as F. unfold T.get0 in G. rewrite G in F. contradiction. }
    apply get_mz in G as (N & _ & B & _). specialize (B U).
    match goal with |- NoFuel (bind ?X _) /\ _ =>
      assert (HX : NoFuel X /\ (forall r1, X = Ok r1 -> (mz (t_tok r1) <= mz st)%nat)) end.
    { repeat match goal with |- context [if zlist_eqb ?a ?b then _ else _] => destruct (zlist_eqb a b) end.
      - split; [apply fine_nofuel, fine_bind; [apply fine_get_uint|intros; exact Logic.I]|].
        intros r1 H. ib H as vs E. inversion H; subst; cbn. destruct vs. eapply le_of; [apply le_get_uint|exact E].
      - pose proof (mz_le_meas st) as M.
        destruct (flags_loop_term (S (S (meas st))) flag_tbl st (t_flags r) ltac:(lia)) as [NF K].
        split; [apply nofuel_bind; [exact NF|intros; discriminate]|].
        intros r1 H. ib H as vs E. inversion H; subst; cbn. destruct vs. eapply le_of; [exact K|exact E].
      - split; [apply fine_nofuel, fine_bind; [apply fine_get_uint|intros; exact Logic.I]|].
        intros r1 H. ib H as vs E. inversion H; subst; cbn. destruct vs. eapply le_of; [apply le_get_uint|exact E].
      - pose proof (mz_le_meas st) as M.
        destruct (flags_loop_term (S (S (meas st))) eflag_tbl st (t_ednsflags r) ltac:(lia)) as [NF K].
        split; [apply nofuel_bind; [exact NF|intros; discriminate]|].
        intros r1 H. ib H as vs E. inversion H; subst; cbn. destruct vs. eapply le_of; [exact K|exact E].
      - split; [apply fine_nofuel, fine_bind; [apply fine_get_uint|intros; exact Logic.I]|].
        intros r1 H. ib H as vs E. inversion H; subst; cbn. destruct vs. eapply le_of; [apply le_get_uint|exact E].
      - split.
        + apply nofuel_bind; [apply fine_nofuel, fine_get_string|]. intros v _.
          destruct (opcode_from_text (fst v)); discriminate.
        + intros r1 H. ib H as vs E. destruct vs as [v s1].
          destruct (opcode_from_text (fst (v, s1))); inversion H; subst; cbn. eapply le_of; [apply le_get_string|exact E].
      - split.
        + apply nofuel_bind; [apply fine_nofuel, fine_get_string|]. intros v _.
          destruct (rcode_from_text (fst v)); discriminate.
        + intros r1 H. ib H as vs E. destruct vs as [v s1].
          destruct (rcode_from_text (fst (v, s1))); inversion H; subst; cbn. eapply le_of; [apply le_get_string|exact E].
      - split; [discriminate|intros; discriminate]. }
    destruct HX as [NX KX]. split.
    - apply nofuel_bind; [exact NX|]. intros r1 _. apply fine_nofuel, fine_bind; [apply fine_get_eol|intros; exact Logic.I].
    - intros r' H. ib H as r1 E. ib H as st' L. inversion H; subst; cbn.
      apply get_eol_mz in L. specialize (KX r1 E). lia.
  Qed.

  Lemma owner_term r r1 n : owner pctx r = Ok (r1, n) ->
    Pend (t_tok r) -> (mz (t_tok r1) + 1 <= mz (t_tok r))%nat.
  Proof.
    unfold owner. intros H U. ib H as ts G. destruct ts as [tk st].
    apply get_mz in G as (_ & _ & B & _). specialize (B U).
    destruct (negb (T.ttype tk =? T.tWS)).
    - ib H as rr X. ib X as nn Y. inversion X; subst. destruct (t_last _) eqn:L; [|discriminate]. inversion H; subst. cbn. lia.
    - cbn [bind] in H. destruct (t_last _) eqn:L; [|discriminate]. inversion H; subst. cbn. lia.
  Qed.

  Lemma class_column_le tk st c tk' st' : class_column tk st = Ok (c, tk', st') -> (mz st' <= mz st)%nat.
  Proof.
    unfold class_column. destruct (class_from_text (T.tvalue tk)); try (intros H; inversion H; subst; lia).
    destruct (T.get0 st) as [[tk2 st2]|e|e] eqn:G; try (intros H; inversion H; subst; lia).
    - apply get_mz in G as (_ & A & _). destruct (negb (T.is_identifier tk2)); intros H; inversion H; subst. lia.
    - destruct (T.in_syntax_family e); intros H; inversion H; subst. lia.
  Qed.

  Lemma question_line_term r m sec r' : question_line pctx type_from_text r m sec = Ok r' ->
    Pend (t_tok r) -> (mz (t_tok r') + 1 <= mz (t_tok r))%nat.
  Proof.
    unfold question_line. intros H U. ib H as rn O. destruct rn as [r1 n]. apply owner_term in O; [|exact U].
    ib H as ts G. destruct ts as [tk0 st0]. apply get_mz in G as (_ & A0 & _).
    cbn [fst snd] in H. destruct (negb (T.is_identifier tk0)); [discriminate|].
    ib H as cc C. destruct cc as [[rdclass tk] st]. apply class_column_le in C.
    ib H as ty Y. ib H as hd Z. cbv zeta in H. ib H as st' L. apply get_eol_mz in L. inversion H; subst; cbn. lia.
  Qed.

  Lemma rdata_from_tok_le c t st : Le st (rdata_from_tok per_type_text c t st).
  Proof.
    unfold rdata_from_tok, T.wrap_syntax. pose proof (per_type_le c t st) as P.
    destruct (per_type_text c t st) as [[u s1]|e|e]; cbn [bind fst snd].
    - cbn [Le] in P. pose proof (le_get_eol_tok s1) as S.
      destruct (T.get_eol_as_token s1) as [[tk s2]|e|e]; cbn [bind fst snd].
      + cbn [Le] in *. lia.
      + destruct (T.in_syntax_family e); exact Logic.I.
      + exact Logic.I.
    - destruct (T.in_syntax_family e); exact Logic.I.
    - exact Logic.I.
  Qed.

  Lemma rr_line_term r m sec r' : rr_line per_type_text pctx type_from_text r m sec = Ok r' ->
    Pend (t_tok r) -> (mz (t_tok r') + 1 <= mz (t_tok r))%nat.
  Proof.
    unfold rr_line. intros H U. ib H as rn O. destruct rn as [r1 n]. apply owner_term in O; [|exact U].
    ib H as ts G. destruct ts as [tk0 st0]. apply get_mz in G as (_ & A0 & _).
    cbn [fst snd] in H. destruct (negb (T.is_identifier tk0)); [discriminate|].
    ib H as tq Q. destruct tq as [[ttl tk1] st1].
    assert (L1 : (mz st1 <= mz st0)%nat).
    { destruct (int0 (T.tvalue tk0)) as [v|]; [|inversion Q; subst; lia].
      destruct ((v <? 0) || (v >? 4294967295)); [discriminate|].
      destruct (T.get0 st0) as [[tk2 st2]|e|e] eqn:G; try (inversion Q; subst; lia).
      - apply get_mz in G as (_ & A & _). destruct (negb (T.is_identifier tk2)); inversion Q; subst. lia.
      - destruct (T.in_syntax_family e); inversion Q; subst. lia. }
    ib H as cc C. destruct cc as [[rdclass tk] st]. apply class_column_le in C.
    ib H as ty Y. ib H as hd Z. destruct hd as [[rdclass' deleting] empty].
    ib H as ts3 G3. destruct ts3 as [tk3 st3]. pose proof G3 as G3'. apply get_mz in G3 as (N3 & A3 & _).
    cbn [fst snd] in H. cbv zeta in H.
    destruct (empty && negb (T.is_eol_or_eof tk3)); [discriminate|].
    destruct (negb empty && T.is_eol_or_eof tk3); [discriminate|].
    ib H as hs R. destruct hs as [have_rd st5]. inversion H; subst; cbn.
    destruct (negb (T.is_eol_or_eof tk3)) eqn:Ee.
    - ib R as st4 U4. pose proof (get_unget_mz _ _ _ _ _ _ G3' U4) as L4.
      ib R as rd D. destruct rd as [u s6]. pose proof (le_of _ _ _ _ (rdata_from_tok_le _ _ _) D) as L6.
      inversion R; subst. cbn in *. lia.
    - inversion R; subst. lia.
  Qed.

  (* _TextReader.read: the fuel S(S(length text)) is never exhausted *)
  Lemma read_loop_term : forall fuel r lm sec, linv r lm -> (mz (t_tok r) < fuel)%nat ->
    NoFuel (read_loop per_type_text pctx type_from_text fuel r lm sec).
  Proof.
    induction fuel as [|f IH]; intros r lm sec I Hf; [lia|]. cbn [read_loop].
    apply nofuel_bind; [apply fine_nofuel, fine_get|]. intros [tk st] G.
    apply get_mz in G as (N & A & _ & C).
    destruct (T.is_eol_or_eof tk) eqn:Ee; [discriminate|]. pose proof (eof_is_eol tk Ee) as Hne. specialize (C Hne).
    destruct (T.ttype tk =? T.tCOMMENT).
    - cbv zeta.
      match goal with |- context [enum_from_text ?a ?b ?c ?d ?e] => destruct (enum_from_text a b c d e) as [sn|?|?] end.
      + apply nofuel_bind; [apply fine_nofuel, fine_get_eol|]. intros st' E. apply get_eol_mz in E.
        apply IH; [|cbn; lia]. right. destruct (t_msg r) eqn:M; cbn; [rewrite M|]; discriminate.
      + apply nofuel_bind; [apply fine_nofuel, fine_get_eol|]. intros st' E. apply get_eol_mz in E.
        apply IH; [|cbn; lia]. destruct (zlist_eqb _ _); [left; reflexivity|]. destruct I as [->|I]; [left; reflexivity|right; exact I].
      + apply nofuel_bind; [apply fine_nofuel, fine_get_eol|]. intros st' E. apply get_eol_mz in E.
        apply IH; [|cbn; lia]. destruct (zlist_eqb _ _); [left; reflexivity|]. destruct I as [->|I]; [left; reflexivity|right; exact I].
    - apply nofuel_bind; [apply fine_nofuel, fine_unget|]. intros st1 E. apply unget_pend in E as [U2 U1]; [|exact Hne]. cbv zeta.
      destruct lm.
      + destruct (header_line_term (set_tok r st1) U2) as [NF K].
        apply nofuel_bind; [exact NF|]. intros r' E. specialize (K r' E). cbn in K.
        apply IH; [left; reflexivity|lia].
      + destruct I as [I|I]; [discriminate|]. cbn [t_msg set_tok].
        destruct (t_msg r) as [m|] eqn:M; [|contradiction].
        apply nofuel_bind; [apply fine_nofuel, fine_question_line; exact type_lib|]. intros r' E.
        pose proof (question_line_term _ _ _ _ E U2) as K. cbn in K.
        apply IH; [right; eapply question_line_msg; eauto|lia].
      + destruct I as [I|I]; [discriminate|]. cbn [t_msg set_tok].
        destruct (t_msg r) as [m|] eqn:M; [|contradiction].
        apply nofuel_bind; [apply fine_nofuel, fine_rr_line; exact type_lib|]. intros r' E.
        pose proof (rr_line_term _ _ _ _ E U2) as K. cbn in K.
        apply IH; [right; eapply rr_line_msg; eauto|lia].
  Qed.

  (* dns.message.from_text terminates with a message or a documented library error *)
  Theorem message_from_text_total text orps :
    match from_text per_type_text pctx type_from_text text orps with
    | Ok _ => True
    | Lib e => mt_lib e
    | Internal _ => False
    end.
  Proof.
    pose proof (message_from_text_outcome per_type_text pctx type_from_text type_lib text orps) as O.
    assert (NF : NoFuel (from_text per_type_text pctx type_from_text text orps)).
    { unfold from_text. apply nofuel_bind; [|intros; discriminate].
      apply read_loop_term; [left; reflexivity|]. unfold r0, mz, T.init. cbn. lia. }
    destruct (from_text per_type_text pctx type_from_text text orps); auto.
    subst. apply NF. reflexivity.
  Qed.
End Term.

(* ---------- the executable instance: C05's text schemas obey the discipline ---------- *)
Lemma le_get_ttl st : Le st (T.get_ttl st).
Proof.
  unfold T.get_ttl. apply le_bind; [apply le_get_unescaped|]. intros t s1 H. cbn [fst snd].
  destruct (negb (T.is_identifier t)); [exact Logic.I|]. apply le_pure. intros x. exact H.
Qed.

Lemma le_get_string_as_bytes st m : Le st (T.get_string_as_bytes st m).
Proof.
  unfold T.get_string_as_bytes. apply le_bind; [apply le_get0|]. intros t s1 H. cbn [fst snd].
  apply le_pure. intros x. destruct (negb _); [exact Logic.I|]. destruct (_ && _); [exact Logic.I|exact H].
Qed.

Lemma le_get_name c st : Le st (RdTextM.get_name c st).
Proof.
  unfold RdTextM.get_name. apply le_bind; [apply le_get0|]. intros t s1 H. apply le_pure. intros x. exact H.
Qed.

Lemma le_get_remaining_loop : forall fuel st maxt acc, Le st (T.get_remaining_loop fuel st maxt acc).
Proof.
  induction fuel as [|f IH]; intros st maxt acc; cbn [T.get_remaining_loop]; [exact Logic.I|].
  destruct (T.get0 st) as [[t s1]|e|e] eqn:G; cbn [bind]; try exact Logic.I.
  destruct (T.is_eol_or_eof t).
  - destruct (T.unget s1 t) as [s2|e|e] eqn:U; cbn [bind Le]; auto. eapply get_unget_mz; eauto.
  - apply get_mz in G as (_ & A & _).
    destruct (negb (maxt =? 0) && _); [exact A|]. eapply le_weaken; [apply IH|exact A].
Qed.

Lemma le_get_remaining st maxt : Le st (T.get_remaining st maxt).
Proof. apply le_get_remaining_loop. Qed.

Lemma get_unescaped_inv st t s1 : T.get_unescaped st = Ok (t, s1) ->
  exists t0, T.get0 st = Ok (t0, s1) /\ T.unescape t0 = Ok t.
Proof.
  unfold T.get_unescaped. destruct (T.get0 st) as [[t0 s0]|e|e]; cbn [bind fst snd]; try discriminate.
  destruct (T.unescape t0) as [t'|e|e] eqn:U; cbn [bind]; try discriminate. intros H; inversion H; subst.
  exists t0. split; [reflexivity|exact U].
Qed.

Lemma unescape_type t t' : T.unescape t = Ok t' -> T.ttype t' = T.ttype t.
Proof.
  unfold T.unescape. destruct (negb (T.tesc t)); [intros H; inversion H; reflexivity|].
  destruct (T.ue_loop _ _); cbn [bind]; try discriminate. intros H; inversion H; reflexivity.
Qed.

Lemma le_cri_loop : forall fuel st acc, Le st (T.cri_loop fuel st acc).
Proof.
  induction fuel as [|f IH]; intros st acc; cbn [T.cri_loop]; [exact Logic.I|].
  destruct (T.get_unescaped st) as [[t s1]|e|e] eqn:G; cbn [bind]; try exact Logic.I.
  apply get_unescaped_inv in G as (t0 & G & Ue). apply unescape_type in Ue.
  pose proof G as G'. apply get_mz in G as (_ & A & _ & C).
  destruct (T.is_eol_or_eof t).
  - destruct (T.unget s1 t) as [s2|e|e] eqn:U; cbn [bind Le]; auto.
    apply unget_mz in U as [U _]. rewrite U. cbn [pend]. rewrite Ue.
    destruct (T.ttype t0 =? T.tEOF) eqn:E; [lia|]. apply Z.eqb_neq in E. specialize (C E). lia.
  - destruct (negb (T.is_identifier t)); [exact Logic.I|]. eapply le_weaken; [apply IH|exact A].
Qed.

Lemma le_cri st b : Le st (T.concatenate_remaining_identifiers st b).
Proof.
  unfold T.concatenate_remaining_identifiers. pose proof (le_cri_loop (T.rem_fuel st) st []) as H.
  destruct (T.cri_loop _ _ _) as [[a s1]|e|e]; cbn [bind fst]; auto.
  destruct (negb _); [exact Logic.I|exact H].
Qed.

Lemma le_txt_from_text st : Le st (T.txt_from_text st).
Proof.
  unfold T.txt_from_text. apply le_bind; [apply le_get_remaining|]. intros t s1 H. cbn [fst snd].
  apply le_pure. intros x. destruct (T.is_nil x); [exact Logic.I|exact H].
Qed.

Lemma le_rest_bytes d st : Le st (RdTextM.rest_bytes d st).
Proof.
  unfold RdTextM.rest_bytes. apply le_bind; [apply le_cri|]. intros t s1 H. cbn [fst snd].
  apply le_pure. intros x. apply le_pure. intros y. exact H.
Qed.

Lemma le_bind' {A B} st s (r : res (A * T.tstate)) (k : A * T.tstate -> res (B * T.tstate)) :
  Le s r -> (mz s <= mz st)%nat -> (forall a s1, (mz s1 <= mz st)%nat -> Le st (k (a, s1))) -> Le st (bind r k).
Proof. destruct r as [[a s1]|e|e]; cbn [bind Le]; auto. intros H1 H2 H3. apply H3. lia. Qed.

Ltac le_reader :=
  first [apply le_get_uint|apply le_get_ttl|apply le_get_string_as_bytes|apply le_get_name
        |apply le_txt_from_text|apply le_get_identifier|apply le_get_string|apply le_get_int
        |apply le_get_remaining|apply le_cri|apply le_get0|apply le_get_unescaped].
Ltac head_of t := match t with ?f _ => head_of f | _ => t end.
Ltac le_step :=
  match goal with
  | |- Le _ (Ok _) => cbn [Le fst snd]; lia
  | |- Le _ (Lib _) => exact Logic.I
  | |- Le _ (Internal _) => exact Logic.I
  | |- Le _ (if ?b then _ else _) => destruct b
  | |- Le _ (match ?x with [] => _ | _ :: _ => _ end) => destruct x
  | |- Le _ (bind (if ?b then _ else _) _) => destruct b
  | |- Le _ (bind (Ok _) _) => cbn [bind fst snd]
  | |- Le _ (bind (Lib _) _) => exact Logic.I
  | |- Le _ (bind _ _) => eapply le_bind'; [le_reader|lia|intros ? ? ?; cbn [fst snd]]
  | |- Le _ (bind _ _) => apply le_pure; intros ?
  | |- Le _ (let '(_, _) := ?x in _) => destruct x
  | |- Le _ ?r => let h := head_of r in progress (unfold h)   (* a composite field reader *)
  end.

(* the parameter loop of SVCBBase.from_text *)
Lemma le_svcb_params_loop : forall fuel st params, Le st (RdTextM.svcb_params_loop fuel st params).
Proof.
  induction fuel as [|f IH]; intros st params; cbn [RdTextM.svcb_params_loop]; [exact Logic.I|].
  destruct (T.get0 st) as [[t s1]|e|e] eqn:G; cbn [bind]; try exact Logic.I.
  pose proof G as G'. apply get_mz in G as (_ & A & _).
  destruct (T.is_eol_or_eof t).
  { destruct (T.unget s1 t) as [s2|e|e] eqn:U; cbn [bind Le]; auto. eapply get_unget_mz; eauto. }
  destruct (negb (T.is_identifier t)); [exact Logic.I|]. cbv zeta.
  destruct (RdTextM.split_once 61 (T.tvalue t)) as [[key rest]|].
  - (* the two tests (empty key, empty rest) in either order *)
    assert (Q : Le st (do qs <- T.get s1 true false;
                       if negb (T.is_quoted (fst qs)) then Internal RdTextM.iValueError
                       else do ps <- RdTextM.svcb_define params key (Some (T.tvalue (fst qs)));
                            RdTextM.svcb_params_loop f (snd qs) ps)).
    { destruct (T.get s1 true false) as [[q s2]|e|e] eqn:G2; cbn [bind fst snd]; try exact Logic.I.
      apply get_mz in G2 as (_ & A2 & _).
      destruct (negb (T.is_quoted q)); [exact Logic.I|].
      apply le_pure. intros ps. eapply le_weaken; [apply IH|lia]. }
    assert (R : Le st (do ps <- RdTextM.svcb_define params key (Some rest); RdTextM.svcb_params_loop f s1 ps)).
    { apply le_pure. intros ps. eapply le_weaken; [apply IH|lia]. }
    destruct (T.is_nil key); destruct (T.is_nil rest); first [exact Logic.I | exact Q | exact R].
  - apply le_pure. intros ps. eapply le_weaken; [apply IH|lia].
Qed.

Lemma le_svcb_from_text c st : Le st (RdTextM.svcb_from_text c st).
Proof.
  unfold RdTextM.svcb_from_text.
  eapply le_bind'; [apply le_get_uint|lia|]. intros p s1 H1. cbn [fst snd].
  eapply le_bind'; [apply le_get_name|exact H1|]. intros n s2 H2. cbn [fst snd].
  match goal with |- Le st (bind ?X _) =>
    assert (HX : match X with Ok s3 => (mz s3 <= mz st)%nat | _ => True end) end.
  { destruct (p =? 0); [|exact H2].
    destruct (T.get0 s2) as [[t s3]|e|e] eqn:G; cbn [bind fst snd]; try exact Logic.I.
    destruct (negb (T.is_eol_or_eof t)); [exact Logic.I|].
    destruct (T.unget s3 t) as [s4|e|e] eqn:U; try exact Logic.I.
    pose proof (get_unget_mz _ _ _ _ _ _ G U). lia. }
  match goal with |- Le st (bind ?X _) => destruct X as [s3|e|e] end; cbn [bind]; try exact Logic.I.
  eapply le_bind'; [apply le_svcb_params_loop|exact HX|]. intros pl s4 H4. cbn [fst snd].
  destruct (RdTextM.svcb_ctor_ok pl); [exact H4|exact Logic.I].
Qed.

(* LOC.from_text: a coordinate = an integer and up to three strings, the last one the hemisphere *)
Lemma le_loc_coord st hpos hneg : Le st (RdTextM.loc_coord st hpos hneg).
Proof.
  unfold RdTextM.loc_coord.
  eapply le_bind'; [apply le_get_int|lia|]. intros d s1 H1. cbn [fst snd].
  eapply le_bind'; [apply le_get_string|exact H1|]. intros v1 s2 H2. cbn [fst snd].
  match goal with |- Le st (bind ?X _) =>
    assert (HX : match X with Ok (_, _, _, th) => (mz (snd th) <= mz st)%nat | _ => True end) end.
  { destruct (RdTextM.isdecimal_str v1); [|cbn; exact H2]. cbv zeta.
    destruct (T.get_string s2 0) as [[v2 s3]|e|e] eqn:G2; cbn [bind fst snd]; try exact Logic.I.
    pose proof (le_of _ _ _ _ (le_get_string s2 0) G2) as H3.
    destruct (existsb (Z.eqb 46) v2).
    - destruct (RdTextM.split_on 46 v2 []) as [|sec [|ms [|? ?]]]; try exact Logic.I.
      destruct (negb (RdTextM.isdecimal_str sec)); [exact Logic.I|]. cbv zeta.
      destruct (_ || _); [exact Logic.I|].
      destruct (T.get_string s3 0) as [[v3 s4]|e|e] eqn:G3; cbn [bind fst snd]; try exact Logic.I.
      pose proof (le_of _ _ _ _ (le_get_string s3 0) G3). lia.
    - destruct (RdTextM.isdecimal_str v2).
      + destruct (T.get_string s3 0) as [[v3 s4]|e|e] eqn:G3; cbn [bind fst snd]; try exact Logic.I.
        pose proof (le_of _ _ _ _ (le_get_string s3 0) G3). lia.
      + cbn. lia. }
  match goal with |- Le st (bind ?X _) => destruct X as [[[[mi se] ml] th]|e|e] end; cbn [bind]; try exact Logic.I.
  repeat match goal with |- Le st (if ?b then _ else _) => destruct b end; cbn [Le snd]; auto.
Qed.

Lemma le_loc_from_text st : Le st (RdTextM.loc_from_text st).
Proof.
  unfold RdTextM.loc_from_text.
  eapply le_bind'; [apply le_loc_coord|lia|]. intros la s1 H1. cbn [fst snd].
  eapply le_bind'; [apply le_loc_coord|exact H1|]. intros lo s2 H2. cbn [fst snd].
  eapply le_bind'; [apply le_get_string|exact H2|]. intros ta s3 H3. cbn [fst snd].
  apply le_pure; intros ax. apply le_pure; intros alt.
  eapply le_bind'; [apply le_get_remaining|exact H3|]. intros ts s4 H4. cbn [fst snd].
  apply le_pure; intros vals. cbv zeta.
  apply le_pure; intros u1. apply le_pure; intros u2. apply le_pure; intros u3.
  repeat match goal with |- Le st (if ?b then _ else _) => destruct b end; cbn [Le]; auto.
Qed.

Lemma le_parse_field c f st : Le st (RdTextM.parse_field c f st).
Proof.
  destruct f; cbn [RdTextM.parse_field]; try apply le_rest_bytes; try apply le_loc_from_text;
    try (solve [repeat le_step]).
  (* the whole-record readers *)
  all: try (eapply le_bind'; [apply le_svcb_from_text|lia|]; intros [[p n] ps] s1 H; cbn [Le]; exact H).
Qed.

Lemma le_parse_fields c : forall fs st, Le st (RdTextM.parse_fields c fs st).
Proof.
  induction fs as [|f fs IH]; intros st; cbn [RdTextM.parse_fields]; [cbn; lia|].
  eapply le_bind'; [apply le_parse_field|lia|]. intros v s1 H. cbn [fst snd].
  eapply le_bind'; [apply IH|exact H|]. intros vs s2 H2. cbn [Le fst snd]. exact H2.
Qed.

Lemma le_class_from_text c fs chk st : Le st (RdTextM.class_from_text c fs chk st).
Proof.
  unfold RdTextM.class_from_text. eapply le_bind'; [apply le_parse_fields|lia|]. intros v s1 H. cbn [fst snd].
  repeat le_step.
Qed.

Lemma le_generic_from_text st : Le st (T.generic_from_text st).
Proof.
  unfold T.generic_from_text. eapply le_bind'; [apply le_get0|lia|]. intros t s1 H.
  destruct (_ || _); [exact Logic.I|].
  eapply le_bind'; [apply le_get_int|exact H|]. intros n s2 H2.
  eapply le_bind'; [apply le_cri|exact H2|]. intros h s3 H3. repeat le_step.
Qed.

Lemma per_type_run_le pctx c t st : Le st (per_type_run pctx c t st).
Proof.
  unfold per_type_run. match goal with |- Le _ (match ?x with Some _ => _ | None => _ end) => destruct x as [fs|] end.
  - eapply le_bind'; [apply le_class_from_text|lia|]. intros v s1 H. cbn [Le snd]. exact H.
  - eapply le_bind'; [apply le_generic_from_text|lia|]. intros v s1 H. cbn [Le snd]. exact H.
Qed.

(* the executable instance of dns.message.from_text: never an internal exception *)
Theorem message_from_text_run_total pctx text orps :
  match from_text (per_type_run pctx) pctx type_from_text_run text orps with
  | Ok _ => True
  | Lib e => mt_lib e
  | Internal _ => False
  end.
Proof.
  apply message_from_text_total; [apply type_from_text_run_lib|]. intros c t st. apply per_type_run_le.
Qed.

(* ---------- the two token loops of the per-type text parsers terminate ---------- *)
(* Inside dns.rdata.from_text / _TextReader the per-type parser runs under ExceptionWrapper(SyntaxError),
   which would turn the model's fuel marker into a SyntaxError; so it is excluded here, at its only
   sources on the text side besides Tokenizer.get itself (no_internal_tokenizer): the `while True`
   loops of Tokenizer.get_remaining and Tokenizer.concatenate_remaining_identifiers. *)
Lemma mz_lt_rem_fuel st : (mz st < T.rem_fuel st)%nat.
Proof. unfold mz, T.rem_fuel, pend. destruct (T.ungot st) as [u|]; [destruct (T.ttype u =? T.tEOF)|]; lia. Qed.

Lemma get_remaining_loop_nofuel : forall fuel st maxt acc, (mz st < fuel)%nat ->
  T.get_remaining_loop fuel st maxt acc <> Internal T.tFuel.
Proof.
  induction fuel as [|f IH]; intros st maxt acc Hf; [lia|]. cbn [T.get_remaining_loop].
  pose proof (fine_get st false false) as F. unfold T.get0.
  destruct (T.get st false false) as [[t s1]|e|e] eqn:G; cbn [bind]; [|discriminate|contradiction].
  apply get_mz in G as (_ & A & _ & C).
  destruct (T.is_eol_or_eof t) eqn:Ee.
  - unfold T.unget. destruct (T.ungot s1); cbn [bind]; discriminate.
  - specialize (C (eof_is_eol t Ee)). destruct (negb (maxt =? 0) && _); [discriminate|]. apply IH. lia.
Qed.

Lemma cri_loop_nofuel : forall fuel st acc, (mz st < fuel)%nat -> T.cri_loop fuel st acc <> Internal T.tFuel.
Proof.
  induction fuel as [|f IH]; intros st acc Hf; [lia|]. cbn [T.cri_loop].
  pose proof (fine_get_unescaped st) as F.
  destruct (T.get_unescaped st) as [[t s1]|e|e] eqn:G; cbn [bind]; [|discriminate|contradiction].
  apply get_unescaped_inv in G as (t0 & G & Ue). apply unescape_type in Ue.
  apply get_mz in G as (_ & A & _ & C).
  destruct (T.is_eol_or_eof t) eqn:Ee.
  - unfold T.unget. destruct (T.ungot s1); cbn [bind]; discriminate.
  - pose proof (eof_is_eol t Ee) as Hne. rewrite Ue in Hne. specialize (C Hne).
    destruct (negb (T.is_identifier t)); [discriminate|]. apply IH. lia.
Qed.

Theorem text_loops_terminate st :
  (forall maxt, T.get_remaining st maxt <> Internal T.tFuel) /\
  (forall allow_empty, T.concatenate_remaining_identifiers st allow_empty <> Internal T.tFuel).
Proof.
  split.
  - intros maxt. apply get_remaining_loop_nofuel, mz_lt_rem_fuel.
  - intros b. unfold T.concatenate_remaining_identifiers.
    pose proof (cri_loop_nofuel (T.rem_fuel st) st [] (mz_lt_rem_fuel st)) as H.
    destruct (T.cri_loop _ _ _) as [r|e|e]; cbn [bind]; [destruct (negb _); discriminate|discriminate|].
    intros X. apply H. exact X.
Qed.

(* dns.rdata.from_text (TokM.rdata_from_text: tokenizer, generic-syntax branch, per-type text parser,
   end-of-line check, all inside ExceptionWrapper(SyntaxError)) for an ARBITRARY per-type parser and
   arbitrary wire codec of the generic branch: a value or a SyntaxError-family error *)
Theorem rdata_from_text_family {V} (ft : T.tstate -> res (V * T.tstate)) fw tw text :
  match T.rdata_from_text ft fw tw text with
  | Ok _ => True
  | Lib e => T.in_syntax_family e = true
  | Internal _ => False
  end.
Proof.
  unfold T.rdata_from_text, T.wrap_syntax.
  match goal with |- match (match ?r with _ => _ end) with _ => _ end => destruct r as [a|e|e] end; auto.
  destruct (T.in_syntax_family e) eqn:E; [exact E|reflexivity].
Qed.

(* The third token loop on the text side, SVCBBase.from_text's parameter loop (C05's model of it):
   its result does not depend on the fuel once the fuel exceeds the measure - so with
   rem_fuel = len + 2 the exhaustion branch is never the reason for its result. *)
Lemma svcb_params_loop_fuel_indep : forall f1 f2 st ps, (mz st < f1)%nat -> (mz st < f2)%nat ->
  RdTextM.svcb_params_loop f1 st ps = RdTextM.svcb_params_loop f2 st ps.
Proof.
  induction f1 as [|f1 IH]; intros f2 st ps H1 H2; [lia|]. destruct f2 as [|f2]; [lia|].
  cbn [RdTextM.svcb_params_loop].
  destruct (T.get0 st) as [[t s1]|e|e] eqn:G; cbn [bind]; try reflexivity.
  apply get_mz in G as (_ & A & _ & C).
  destruct (T.is_eol_or_eof t) eqn:Ee; [reflexivity|]. specialize (C (eof_is_eol t Ee)).
  destruct (negb (T.is_identifier t)); [reflexivity|]. cbv zeta.
  destruct (RdTextM.split_once 61 (T.tvalue t)) as [[key rest]|].
  - assert (Q : (do qs <- T.get s1 true false;
                 if negb (T.is_quoted (fst qs)) then Internal RdTextM.iValueError
                 else do ps' <- RdTextM.svcb_define ps key (Some (T.tvalue (fst qs)));
                      RdTextM.svcb_params_loop f1 (snd qs) ps')
                = (do qs <- T.get s1 true false;
                   if negb (T.is_quoted (fst qs)) then Internal RdTextM.iValueError
                   else do ps' <- RdTextM.svcb_define ps key (Some (T.tvalue (fst qs)));
                        RdTextM.svcb_params_loop f2 (snd qs) ps')).
    { destruct (T.get s1 true false) as [[q s2]|e|e] eqn:G2; cbn [bind fst snd]; try reflexivity.
      apply get_mz in G2 as (_ & A2 & _).
      destruct (negb (T.is_quoted q)); [reflexivity|].
      destruct (RdTextM.svcb_define ps key (Some (T.tvalue q))); cbn [bind]; try reflexivity. apply IH; lia. }
    assert (R : (do ps' <- RdTextM.svcb_define ps key (Some rest); RdTextM.svcb_params_loop f1 s1 ps')
                = (do ps' <- RdTextM.svcb_define ps key (Some rest); RdTextM.svcb_params_loop f2 s1 ps')).
    { destruct (RdTextM.svcb_define ps key (Some rest)); cbn [bind]; try reflexivity. apply IH; lia. }
    destruct (T.is_nil key); destruct (T.is_nil rest); first [reflexivity | exact Q | exact R].
  - destruct (RdTextM.svcb_define ps (T.tvalue t) None); cbn [bind]; try reflexivity. apply IH; lia.
Qed.

Theorem svcb_params_loop_fuel_sufficient st ps extra :
  RdTextM.svcb_params_loop (T.rem_fuel st + extra) st ps = RdTextM.svcb_params_loop (T.rem_fuel st) st ps.
Proof. apply svcb_params_loop_fuel_indep; pose proof (mz_lt_rem_fuel st); lia. Qed.
