(* Termination of the resolution loop within its lifetime.
   Measure: weight * (candidate names left + 100 ms slots left before the deadline)
            + 2 * servers left in this round + pending TCP retry.
   Every iteration either consumes a server of the round, or a pending TCP retry, or re-arms
   the round after a back-off of at least 100 ms, or moves to the next candidate name. *)
From DV Require Import Base.Prelude Model.NameM Model.ResolM Proofs.ResolBase.
Open Scope Z_scope.

Ltac Zify.zify_post_hook ::= Z.to_euclidean_division_equations.

Lemma rearm_budget_mono : forall d a b, a <= b -> (rearm_budget d b <= rearm_budget d a)%nat.
Proof. intros. unfold rearm_budget. lia. Qed.

Lemma rearm_budget_step : forall d a b, a + 100 <= b -> b < d ->
  (rearm_budget d b + 1 <= rearm_budget d a)%nat.
Proof. intros. unfold rearm_budget. lia. Qed.

Lemma observe_clock : forall o T clock q ob clock2,
  observe o T clock q = (ob, clock2) -> 0 <= o_dur o ->
  clock <= clock2 /\ clock2 <= clock + Z.max 0 T.
Proof.
  intros o T clock q ob clock2 H HD. unfold observe in H.
  destruct (is_timeout_reply (o_reply o) || (o_dur o >=? T)) eqn:E.
  - inversion H; subst. lia.
  - inversion H; subst. apply orb_false_iff in E. destruct E as [_ E]. lia.
Qed.

Lemma compute_timeout_inl : forall start L TO now T,
  compute_timeout start L TO now = inl T -> start <= now ->
  now - start < L /\ T <= L - (now - start) /\ T = Z.min (L - (now - start)) TO.
Proof.
  intros start L TO now T H HS. unfold compute_timeout in H.
  destruct (now - start <? 0) eqn:E1; [lia|].
  destruct (now - start >=? L) eqn:E2; [discriminate|].
  inversion H; subst. lia.
Qed.

Lemma compute_timeout_inr : forall start L TO now d,
  compute_timeout start L TO now = inr d -> start <= now -> d = now - start /\ L <= now - start.
Proof.
  intros start L TO now d H HS. unfold compute_timeout in H.
  destruct (now - start <? 0) eqn:E1; [lia|].
  destruct (now - start >=? L) eqn:E2; [|discriminate].
  inversion H; subst. lia.
Qed.

Lemma remove_server_length : forall x l l', remove_server x l = Some l' -> length l = S (length l').
Proof.
  induction l as [|y r IH]; intros l' H; simpl in H; try discriminate.
  destruct (sv_id y =? sv_id x).
  - inversion H; subst. reflexivity.
  - destruct (remove_server x r) as [r'|] eqn:ER; try discriminate.
    inversion H; subst. simpl. f_equal. apply IH. reflexivity.
Qed.

Section Term.
Variables (sc : nat -> outcome) (c : cfg) (start : Z).
Hypothesis Hdur : forall i, 0 <= o_dur (sc i).

Let n0 := length (c_servers c).
Let deadline := start + c_lifetime c.

Definition phi (s : st) (e : env) : nat :=
  (weight c * (length (s_qnames s) + rearm_budget deadline (e_clock e))
   + 2 * length (s_current s) + (if s_retry_with_tcp s then 1 else 0))%nat.

Definition TInv (s : st) (e : env) : Prop :=
  (length (s_current s) <= n0)%nat /\ (length (s_nameservers s) <= n0)%nat /\
  100 <= s_backoff s <= 2000 /\ start <= e_clock e /\ e_clock e <= Z.max start deadline.

Lemma weight_eq : weight c = (2 * n0 + 2)%nat.
Proof. reflexivity. Qed.

Lemma step_decreases : forall s e s' e',
  TInv s e -> step sc c start s e = inl (s', e') ->
  TInv s' e' /\ (phi s' e' < phi s e)%nat.
Proof.
  intros s e s' e' (I1 & I2 & I3 & I4 & I5) H.
  apply step_inl in H.
  destruct H as (s1 & ns & tcp & backoff & T & ob & clock2 & HN & HT & HO & HE & HQ).
  apply next_nameserver_ok in HN.
  destruct HN as (N1 & N2 & N3 & N4 & N5 & N6 & N7 & N8 & N9 & N10 & HN).
  assert (HB: 0 <= backoff <= 2000) by (destruct HN as [HN|[HN|HN]]; lia).
  assert (HS: start <= e_clock e + backoff) by lia.
  destruct (compute_timeout_inl _ _ _ _ _ HT HS) as (T1 & T2 & T3).
  destruct (observe_clock _ _ _ _ _ _ HO (Hdur _)) as (O1 & O2).
  assert (HC2: start <= clock2 /\ clock2 <= Z.max start deadline) by (unfold deadline; lia).
  assert (HBO: 100 <= s_backoff s1 <= 2000) by (destruct HN as [HN|[HN|HN]]; lia).
  assert (HCUR: (length (s_current s1) <= n0)%nat).
  { destruct HN as [HN|[HN|HN]].
    - destruct HN as (_ & _ & _ & _ & _ & HN & _). rewrite HN. exact I1.
    - destruct HN as (_ & HN & _). rewrite HN in I1. simpl in I1. lia.
    - destruct HN as (_ & _ & HN & _). rewrite HN in I2. simpl in I2. lia. }
  (* measure of the state after next_nameserver, at the clock after the query *)
  assert (HM: (weight c * (length (s_qnames s1) + rearm_budget deadline clock2)
               + 2 * length (s_current s1) + 2 <= phi s e)%nat
              \/ (s_tcp_attempt s1 = true /\
                  (weight c * (length (s_qnames s1) + rearm_budget deadline clock2)
                   + 2 * length (s_current s1) + 1 <= phi s e)%nat)).
  { unfold phi. rewrite N1.
    pose proof (rearm_budget_mono deadline (e_clock e) clock2 ltac:(lia)) as HM1.
    destruct HN as [HN|[HN|HN]].
    - right. destruct HN as (R1 & _ & _ & R4 & _ & R6 & _). split; [congruence|].
      rewrite R1, R6. nia.
    - left. destruct HN as (R1 & R2 & _). rewrite R1, R2. simpl length. nia.
    - left. destruct HN as (R1 & R2 & R3 & R4 & _). rewrite R1, R2. simpl length.
      assert (HL: (length (s_current s1) + 1 <= n0)%nat) by (rewrite R3 in I2; simpl in I2; lia).
      pose proof (rearm_budget_step deadline (e_clock e) (e_clock e + backoff) ltac:(lia) ltac:(unfold deadline; lia)) as HM2.
      pose proof (rearm_budget_mono deadline (e_clock e + backoff) clock2 ltac:(lia)) as HM3.
      rewrite weight_eq. nia. }
  subst e'. unfold phi in HM |- *; simpl e_clock.
  destruct HQ as [HQ|(s2 & HQ & HR)].
  - apply query_result_cont in HQ.
    destruct HQ as (ns' & _ & (S1 & S2 & S3 & S4 & S5 & S6 & S7) & _ & _ & HD).
    assert (HNS: (length (s_nameservers s') <= n0)%nat).
    { destruct HD as [(_ & nss & HR & HD & _)|(_ & HD & _)].
      - apply remove_server_length in HR. rewrite HD. rewrite N4 in HR. lia.
      - rewrite HD, N4. exact I2. }
    split.
    + unfold TInv. simpl e_clock. rewrite S3, S7. repeat split; auto; lia.
    + rewrite S1, S3.
      assert (HRT: s_retry_with_tcp s' = true -> s_tcp_attempt s1 = false).
      { destruct HD as [(_ & nss & _ & _ & HD)|(_ & _ & HD)]; rewrite HD, N8; simpl; try discriminate.
        destruct (s_tcp_attempt s1); simpl; auto. rewrite andb_false_r. discriminate. }
      destruct (s_retry_with_tcp s') eqn:ERT.
      * specialize (HRT eq_refl). destruct HM as [HM|(HM & _)]; [lia|congruence].
      * destruct HM as [HM|(_ & HM)]; lia.
  - apply query_result_next in HQ.
    destruct HQ as (ns' & m & ch & a & _ & _ & _ & _ & _ & (S1 & S2 & S3 & S4 & S5 & S6 & S7) & S8 & S9 & _ & _).
    apply next_request_request in HR.
    destruct HR as (q & rest & skipped & s0 & R1 & R2 & R3 & R4 & R5).
    assert (HL: (length rest < length (s_qnames s1))%nat).
    { rewrite <- S1, R1, app_length. simpl. lia. }
    assert (HNS: (length (s_nameservers s') <= n0 /\ length (s_current s') <= n0)%nat).
    { subst s'. unfold arm. simpl. destruct (s_have_request s0).
      - rewrite R4, S8, N4. lia.
      - unfold n0. lia. }
    split.
    + unfold TInv. simpl e_clock. destruct HNS. subst s'. simpl. repeat split; auto; lia.
    + destruct HNS as [_ HNS]. subst s'. simpl s_qnames. simpl s_retry_with_tcp. simpl s_current in *.
      rewrite weight_eq in *.
      destruct HM as [HM|(_ & HM)]; nia.
Qed.

Lemma loop_no_fuel_exhaustion : forall fuel s e,
  TInv s e -> (phi s e < fuel)%nat -> fst (fst (loop fuel sc c start s e)) <> FFuel.
Proof.
  induction fuel as [|fuel IH]; intros s e HI HF; [lia|].
  simpl. destruct (step sc c start s e) as [[s' e']|[[f s'] e']] eqn:ES.
  - destruct (step_decreases _ _ _ _ HI ES) as (HI' & HD). apply IH; auto. lia.
  - simpl. unfold step in ES.
    destruct (next_nameserver c s) as [s1 ns tcp backoff|s1|k]; try (inversion ES; subst; discriminate).
    destruct (compute_timeout start (c_lifetime c) (c_timeout c) (e_clock e + backoff)); try (inversion ES; subst; discriminate).
    destruct (observe _ _ _ _) as [ob clock2].
    destruct (query_result c s1 clock2 (Z.of_nat (e_pos e)) ob) as [s2|s2 a|s2|s2 a|s2|k]; try (inversion ES; subst; discriminate).
    destruct (next_request c s2 (s_qnames s2) clock2); simpl in ES; inversion ES; subst; discriminate.
Qed.

(* every query is issued strictly before the deadline and is over by the deadline; the clock at the
   end exceeds max(start, deadline) by at most one back-off interval *)
Definition ev_in_lifetime (ev : event) : Prop :=
  start <= ev_start ev /\ ev_start ev - start < c_lifetime c /\ ev_timeout ev <= c_lifetime c - (ev_start ev - start).

Definition LInv (old : list event) (s : st) (e : env) : Prop :=
  TInv s e /\ exists new, e_trace e = old ++ new /\ Forall ev_in_lifetime new.

Lemma step_linv : forall old s e s' e',
  LInv old s e -> step sc c start s e = inl (s', e') -> LInv old s' e'.
Proof.
  intros old s e s' e' (HT & new & HE & HF) H. split.
  - eapply step_decreases; eauto.
  - destruct HT as (I1 & I2 & I3 & I4 & I5).
    apply step_inl in H.
    destruct H as (s1 & ns & tcp & backoff & T & ob & clock2 & HN & HTO & HO & HE' & HQ).
    apply next_nameserver_ok in HN.
    destruct HN as (_ & _ & _ & _ & _ & _ & _ & _ & _ & _ & HN).
    assert (HB: 0 <= backoff) by (destruct HN as [HN|[HN|HN]]; lia).
    destruct (compute_timeout_inl _ _ _ _ _ HTO ltac:(lia)) as (T1 & T2 & T3).
    subst e'. simpl. exists (new ++ [mk_event s1 ns tcp backoff T e ob clock2]).
    split; [rewrite HE, app_assoc; reflexivity|].
    apply Forall_app. split; auto. constructor; auto.
    unfold ev_in_lifetime, mk_event; simpl. lia.
Qed.

Lemma step_final_clock : forall old s e f s' e',
  LInv old s e -> step sc c start s e = inr (f, s', e') ->
  e_clock e' <= Z.max start deadline + 2000 /\ start <= e_clock e' /\
  (exists new, e_trace e' = old ++ new /\ Forall ev_in_lifetime new) /\
  (forall errs d, f = FLifetime errs d -> d = e_clock e' - start /\ c_lifetime c <= d).
Proof.
  intros old s e f s' e' ((I1 & I2 & I3 & I4 & I5) & new & HE & HF) H.
  apply step_inr in H.
  destruct H as [(k & _ & Hf & _ & He)|[(_ & Hf & He)|[(ns & tcp & backoff & d & HN & HT & Hf & He)|
                 (s1 & ns & tcp & backoff & T & ob & clock2 & HN & HT & HO & He & HQ)]]].
  - subst. split; [lia|]. split; [lia|]. split; [exists new; auto|]. intros; discriminate.
  - subst. split; [lia|]. split; [lia|]. split; [exists new; auto|]. intros; discriminate.
  - apply next_nameserver_ok in HN.
    destruct HN as (_ & _ & _ & _ & _ & _ & _ & _ & _ & _ & HN).
    assert (HB: 0 <= backoff <= 2000) by (destruct HN as [HN|[HN|HN]]; lia).
    destruct (compute_timeout_inr _ _ _ _ _ HT ltac:(lia)) as (D1 & D2).
    subst e'. simpl. split; [lia|]. split; [lia|]. split; [exists new; auto|].
    intros errs d' Hd. subst f. inversion Hd; subst. lia.
  - apply next_nameserver_ok in HN.
    destruct HN as (_ & _ & _ & _ & _ & _ & _ & _ & _ & _ & HN).
    assert (HB: 0 <= backoff <= 2000) by (destruct HN as [HN|[HN|HN]]; lia).
    destruct (compute_timeout_inl _ _ _ _ _ HT ltac:(lia)) as (T1 & T2 & T3).
    destruct (observe_clock _ _ _ _ _ _ HO (Hdur _)) as (O1 & O2).
    subst e'. simpl. split; [unfold deadline; lia|]. split; [lia|]. split.
    + exists (new ++ [mk_event s1 ns tcp backoff T e ob clock2]).
      split; [rewrite HE, app_assoc; reflexivity|].
      apply Forall_app. split; auto. constructor; auto.
      unfold ev_in_lifetime, mk_event; simpl. lia.
    + intros errs d Hd. subst f.
      destruct HQ as [(a & _ & Hf)|[(a & _ & Hf)|[(_ & Hf)|[(k & _ & Hf & _)|(s2 & _ & [(a & _ & Hf)|[(a & _ & Hf)|(_ & Hf)]])]]]];
        discriminate.
Qed.
End Term.

(* ---------- resolve_with ---------- *)
Lemma next_request_request_len : forall c qnames s now s',
  next_request c s qnames now = NRequest s' ->
  (length (s_qnames s') < length qnames)%nat /\ s_retry_with_tcp s' = false /\ s_backoff s' = 100 /\
  s_current s' = s_nameservers s' /\
  s_nameservers s' = (if s_have_request s then s_nameservers s else c_servers c).
Proof.
  intros c qnames s now s' H. apply next_request_request in H.
  destruct H as (q & rest & skipped & s0 & R1 & R2 & R3 & R4 & R5).
  subst s' qnames. simpl. rewrite app_length. simpl. rewrite R3, R4. repeat split; auto. lia.
Qed.

Theorem resolve_terminates_within_lifetime : forall sc c ch e f s' e',
  (forall i, 0 <= o_dur (sc i)) ->
  resolve_with (fuel_bound c) sc c ch e = (f, s', e') ->
  f <> FFuel /\
  e_clock e <= e_clock e' <= Z.max (e_clock e) (e_clock e + c_lifetime c) + 2000 /\
  (exists new, e_trace e' = e_trace e ++ new /\ Forall (ev_in_lifetime c (e_clock e)) new) /\
  (forall errs d, f = FLifetime errs d -> d = e_clock e' - e_clock e /\ c_lifetime c <= d).
Proof.
  intros sc c ch e f s' e' Hdur H. unfold resolve_with in H.
  destruct (next_request c (init_st c ch) (c_qnames c) (e_clock e)) as [s1|s1 a|s1 a|s1] eqn:ENR; simpl in H.
  - pose proof (next_request_request_len _ _ _ _ _ ENR) as (L1 & L2 & L3 & L4 & L5).
    simpl in L5.
    assert (HI: LInv c (e_clock e) (e_trace e) s1 e).
    { split.
      - unfold TInv. rewrite L4, L5, L3. repeat split; auto; lia.
      - exists []. rewrite app_nil_r. split; auto. }
    assert (HF: fst (fst (loop (fuel_bound c) sc c (e_clock e) s1 e)) <> FFuel).
    { apply loop_no_fuel_exhaustion; auto. apply HI.
      unfold phi, fuel_bound. rewrite L2, L4, L5.
      replace (e_clock e + c_lifetime c) with (c_lifetime c + e_clock e) by lia.
      assert (rearm_budget (c_lifetime c + e_clock e) (e_clock e) = rearm_budget (c_lifetime c) 0) as ->.
      { unfold rearm_budget. f_equal. f_equal. lia. }
      unfold weight. nia. }
    rewrite H in HF. simpl in HF. split; auto.
    assert (HQ: e_clock e' <= Z.max (e_clock e) (e_clock e + c_lifetime c) + 2000 /\ e_clock e <= e_clock e' /\
                    (exists new, e_trace e' = e_trace e ++ new /\ Forall (ev_in_lifetime c (e_clock e)) new) /\
                    (forall errs d, f = FLifetime errs d -> d = e_clock e' - e_clock e /\ c_lifetime c <= d)).
    { refine (loop_ind sc c (e_clock e) (LInv c (e_clock e) (e_trace e))
                (fun f _ e' => e_clock e' <= Z.max (e_clock e) (e_clock e + c_lifetime c) + 2000 /\ e_clock e <= e_clock e' /\
                    (exists new, e_trace e' = e_trace e ++ new /\ Forall (ev_in_lifetime c (e_clock e)) new) /\
                    (forall errs d, f = FLifetime errs d -> d = e_clock e' - e_clock e /\ c_lifetime c <= d))
                _ _ (fuel_bound c) s1 e f s' e' HI H HF).
      - intros. eapply step_linv; eauto.
      - intros. eapply step_final_clock; eauto. }
    destruct HQ as (Q1 & Q2 & Q3 & Q4). split; [split; assumption|]. split; assumption.
  - inversion H; subst. split; [discriminate|]. split; [lia|]. split; [|intros; discriminate].
    exists []. rewrite app_nil_r. auto.
  - inversion H; subst. split; [discriminate|]. split; [lia|]. split; [|intros; discriminate].
    exists []. rewrite app_nil_r. auto.
  - inversion H; subst. split; [discriminate|]. split; [lia|]. split; [|intros; discriminate].
    exists []. rewrite app_nil_r. auto.
Qed.
