(* dns/_immutable_ctx.py guard and dns.immutable.constify (Model/SetM.v sections 4 and 5). *)
From DV Require Import Base.Prelude Model.SetM.
Open Scope Z_scope.

(* ---------- induction principles for the nested types ---------- *)

Section ActInd.
  Variable P : act -> Prop.
  Hypothesis HSet : forall o k v, P (ASet o k v).
  Hypothesis HDel : forall o k, P (ADel o k).
  Hypothesis HInit : forall o body, Forall P body -> P (AInit o body).
  Hypothesis HRaise : P ARaise.

  Fixpoint act_ind' (a : act) : P a :=
    match a with
    | ASet o k v => HSet o k v
    | ADel o k => HDel o k
    | AInit o body =>
        HInit o body
          ((fix go (l : list act) : Forall P l :=
              match l with
              | [] => Forall_nil P
              | x :: r => Forall_cons x (act_ind' x) (go r)
              end) body)
    | ARaise => HRaise
    end.
End ActInd.

Section PvalInd.
  Variable P : pval -> Prop.
  Hypothesis HInt : forall z, P (VInt z).
  Hypothesis HBytes : forall b, P (VBytes b).
  Hypothesis HBA : forall b, P (VByteArray b).
  Hypothesis HStr : forall b, P (VStr b).
  Hypothesis HNone : P VNone.
  Hypothesis HTuple : forall l, Forall P l -> P (VTuple l).
  Hypothesis HList : forall l, Forall P l -> P (VList l).
  Hypothesis HDict : forall kv, Forall (fun p => P (fst p) /\ P (snd p)) kv -> P (VDict kv).
  Hypothesis HFrozen : forall kv, Forall (fun p => P (fst p) /\ P (snd p)) kv -> P (VFrozen kv).
  Hypothesis HObj : forall z, P (VObj z).

  Fixpoint pval_ind' (v : pval) : P v :=
    let go := fix go (l : list pval) : Forall P l :=
                match l with
                | [] => Forall_nil P
                | x :: r => Forall_cons x (pval_ind' x) (go r)
                end in
    let gokv := fix gokv (l : list (pval * pval)) : Forall (fun p => P (fst p) /\ P (snd p)) l :=
                  match l with
                  | [] => Forall_nil _
                  | (k, x) :: r => Forall_cons (k, x) (conj (pval_ind' k) (pval_ind' x)) (gokv r)
                  end in
    match v with
    | VInt z => HInt z
    | VBytes b => HBytes b
    | VByteArray b => HBA b
    | VStr b => HStr b
    | VNone => HNone
    | VTuple l => HTuple l (go l)
    | VList l => HList l (go l)
    | VDict kv => HDict kv (gokv kv)
    | VFrozen kv => HFrozen kv (gokv kv)
    | VObj z => HObj z
    end.
End PvalInd.

(* ---------- the guard ---------- *)

Lemma gact_init g o body :
  gact g (AInit o body) =
  let '(g1, exc) := gbody (mkG (Some o) (gstore g) (glog g)) body in
  (mkG (gctx g) (gstore g1) (glog g1), exc).
Proof.
  cbn [gact].
  assert (H : forall l g0,
    (fix go (g : gst) (l : list act) {struct l} : gst * bool :=
       match l with
       | [] => (g, false)
       | a :: r => let '(g', exc) := gact g a in if exc then (g', true) else go g' r
       end) g0 l = gbody g0 l).
  { induction l as [|a r IH]; intros g0; cbn; [reflexivity|].
    destruct (gact g0 a) as [g' exc]. destruct exc; [reflexivity|apply IH]. }
  rewrite H. reflexivity.
Qed.

(* whatever an action does - including raising - the context variable is back to what it was *)
Theorem gact_ctx a : forall g, gctx (fst (gact g a)) = gctx g.
Proof.
  induction a as [o k v|o k|o body IH|] using act_ind'; intros g.
  - cbn. destruct (ctx_is (gctx g) o); reflexivity.
  - cbn. destruct (ctx_is (gctx g) o); [destruct (st_has (gstore g) o k)|]; reflexivity.
  - rewrite gact_init. destruct (gbody _ body). reflexivity.
  - reflexivity.
Qed.

Theorem grun_ctx l : forall g, gctx (grun g l) = gctx g.
Proof.
  induction l as [|a r IH]; intros g; cbn; [reflexivity|].
  pose proof (gact_ctx a g) as H. destruct (gact g a) as [g' exc]. cbn in H.
  rewrite IH. destruct exc; cbn; exact H.
Qed.

(* setattr / delattr succeed exactly when the running __init__ is the object's own *)
Theorem setattr_guard g o k v :
  gact g (ASet o k v) =
  if ctx_is (gctx g) o then (mkG (gctx g) (st_set (gstore g) o k v) (glog g ++ [N]), false)
  else (mkG (gctx g) (gstore g) (glog g ++ [E eTypeError]), false).
Proof. reflexivity. Qed.

Theorem delattr_guard_refuses g o k :
  ctx_is (gctx g) o = false ->
  gact g (ADel o k) = (mkG (gctx g) (gstore g) (glog g ++ [E eTypeError]), false).
Proof. intros H. cbn. rewrite H. reflexivity. Qed.

(* after any script whatsoever run from the default context, every attribute assignment and
   deletion on every object raises TypeError and changes nothing *)
Theorem setattr_after_init_raises_all l o k v :
  let g := grun (mkG None [] []) l in
  gact g (ASet o k v) = (mkG None (gstore g) (glog g ++ [E eTypeError]), false) /\
  gact g (ADel o k) = (mkG None (gstore g) (glog g ++ [E eTypeError]), false).
Proof.
  cbv zeta. pose proof (grun_ctx l (mkG None [] [])) as H. cbn in H.
  split; cbn; rewrite H; reflexivity.
Qed.

(* inside an __init__ only the object being initialised can be assigned to: a nested
   construction sets the context to the inner object and restores it afterwards *)
Theorem setattr_inside_other_init g o o' k v :
  gctx g = Some o' -> o' <> o ->
  gact g (ASet o k v) = (mkG (gctx g) (gstore g) (glog g ++ [E eTypeError]), false).
Proof.
  intros H Hn. cbn. rewrite H. cbn. destruct (Nat.eqb_spec o' o); [contradiction|reflexivity].
Qed.

(* ---------- constify ---------- *)

(* deeply immutable values *)
Fixpoint imm (v : pval) : bool :=
  match v with
  | VInt _ | VBytes _ | VStr _ | VNone => true
  | VByteArray _ | VList _ | VDict _ | VObj _ => false
  | VTuple l => forallb imm l
  | VFrozen kv => forallb (fun p => imm (fst p) && imm (snd p)) kv
  end.

(* inputs as they occur: dict keys are hashable values of the grammar without mutable content,
   and an immutable.Dict has been built from immutable content (by constify itself) *)
Fixpoint pre (v : pval) : bool :=
  match v with
  | VTuple l | VList l => forallb pre l
  | VDict kv => forallb (fun p => imm (fst p) && pre (snd p)) kv
  | VFrozen kv => forallb (fun p => imm (fst p) && imm (snd p)) kv
  | VObj _ => false      (* constify says nothing about objects it does not know *)
  | _ => true
  end.

Lemma imm_hashable v : imm v = true -> hashable v = true.
Proof.
  induction v as [| | | | |l IH|l IH|kv IH|kv IH|] using pval_ind'; cbn; try congruence.
  intros H. rewrite forallb_forall in *. intros x Hx.
  rewrite Forall_forall in IH. apply IH; auto.
Qed.

Lemma pre_hashable_imm v : pre v = true -> hashable v = true -> imm v = true.
Proof.
  induction v as [| | | | |l IH|l IH|kv IH|kv IH|] using pval_ind'; cbn; try congruence.
  intros Hp Hh. rewrite forallb_forall in *. intros x Hx.
  rewrite Forall_forall in IH. apply IH; auto.
Qed.

Lemma forallb_map {A B} (f : B -> bool) (g : A -> B) l : forallb f (map g l) = forallb (fun x => f (g x)) l.
Proof. induction l; cbn; congruence. Qed.

Theorem constify_imm v : pre v = true -> imm (constify v) = true.
Proof.
  induction v as [| | | | |l IH|l IH|kv IH|kv IH|] using pval_ind'; cbn [constify pre imm]; try congruence.
  - (* tuple *)
    intros Hp. destruct (forallb hashable l) eqn:Eh; cbn [imm].
    + rewrite forallb_forall in *. intros x Hx. apply pre_hashable_imm; auto.
    + rewrite forallb_map. rewrite forallb_forall in *. rewrite Forall_forall in IH. auto.
  - (* list *)
    intros Hp. rewrite forallb_map. rewrite forallb_forall in *. rewrite Forall_forall in IH. auto.
  - (* dict *)
    intros Hp. rewrite forallb_map. rewrite forallb_forall in *. rewrite Forall_forall in IH.
    intros p Hin. cbn [fst snd]. specialize (Hp p Hin). apply andb_true_iff in Hp as [H1 H2].
    rewrite H1. cbn. apply (IH p Hin), H2.
Qed.

Lemma map_id_in {A} (f : A -> A) l : (forall x, In x l -> f x = x) -> map f l = l.
Proof. induction l as [|a l IH]; cbn; intros H; [reflexivity|]. rewrite H, IH; auto. Qed.

(* immutable values are returned as they are *)
Theorem constify_id v : imm v = true -> constify v = v.
Proof.
  induction v as [| | | | |l IH|l IH|kv IH|kv IH|] using pval_ind'; cbn [constify imm]; try congruence.
  intros H. assert (Hh : forallb hashable l = true).
  { rewrite forallb_forall in *. intros x Hx. apply imm_hashable; auto. }
  rewrite Hh. reflexivity.
Qed.

Corollary constify_idempotent v : pre v = true -> constify (constify v) = constify v.
Proof. intros H. apply constify_id, constify_imm, H. Qed.

(* ---------- _as_bytes / _as_tuple ---------- *)

Theorem as_bytes_imm enc ml eok v r : as_bytes enc ml eok v = Ok r -> exists b, r = VBytes b.
Proof.
  unfold as_bytes.
  destruct (match v with VStr b => if enc then Some b else None | VByteArray b => Some b
                       | VBytes b => Some b | _ => None end) as [b|]; [|discriminate].
  destruct (match ml with Some m => zlen b >? m | None => false end); [discriminate|].
  destruct (negb eok && (zlen b =? 0)); [discriminate|].
  intros E; inversion E. eauto.
Qed.

Lemma as_bytes_imm' enc ml eok v r : as_bytes enc ml eok v = Ok r -> imm r = true.
Proof. intros E. destruct (as_bytes_imm _ _ _ _ _ E) as [b ->]. reflexivity. Qed.

Lemma map_res_forall {A B} (f : A -> res B) (P : B -> Prop) l rs :
  (forall x y, f x = Ok y -> P y) -> map_res f l = Ok rs -> Forall P rs.
Proof.
  intros Hf. revert rs. induction l as [|x l IH]; cbn; intros rs E.
  - inversion E. constructor.
  - destruct (f x) as [y| |] eqn:Ex; try discriminate.
    destruct (map_res f l) as [ys| |]; try discriminate.
    inversion E; subst. constructor; [eapply Hf, Ex|apply IH; reflexivity].
Qed.

(* whatever the caller passes (bytearray, list of bytearrays, ...), the field built by
   _as_tuple(value, _as_bytes) is a tuple of bytes: deeply immutable *)
Theorem as_tuple_bytes_imm enc ml eok v r :
  as_tuple (as_bytes enc ml eok) v = Ok r -> imm r = true.
Proof.
  unfold as_tuple.
  destruct (as_bytes enc ml eok v) as [r0| |] eqn:E0.
  - intros E; inversion E; subst. destruct (as_bytes_imm _ _ _ _ _ E0) as [b ->]. reflexivity.
  - destruct (elements v) as [l|]; [|discriminate].
    destruct (map_res (as_bytes enc ml eok) l) as [rs| |] eqn:Em; try discriminate.
    intros E; inversion E; subst. cbn. apply forallb_forall.
    pose proof (map_res_forall _ (fun y => imm y = true) l rs
                  (fun x y H => as_bytes_imm' _ _ _ _ _ H) Em) as HF.
    rewrite Forall_forall in HF. exact HF.
  - destruct (elements v) as [l|]; [|discriminate].
    destruct (map_res (as_bytes enc ml eok) l) as [rs| |] eqn:Em; try discriminate.
    intros E; inversion E; subst. cbn. apply forallb_forall.
    pose proof (map_res_forall _ (fun y => imm y = true) l rs
                  (fun x y H => as_bytes_imm' _ _ _ _ _ H) Em) as HF.
    rewrite Forall_forall in HF. exact HF.
Qed.

(* constify passes objects it does not know through unchanged: a tuple of mutable objects
   (the options of an OPT record are dns.edns.Option objects) stays a tuple of mutable objects *)
Theorem constify_opaque_refuted :
  exists v, hashable v = true /\ imm (constify v) = false.
Proof. exists (VTuple [VObj 0]). split; reflexivity. Qed.
