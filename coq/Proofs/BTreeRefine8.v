(* C19 - the self-check of the harness model always passes: on every history of operations AND
   dump requests, `BTreeStoreM.run` never reports a difference between its two worlds, and every
   dump carries the flag "every tree of the store abstracts to its value-level tree" = true. *)
From DV Require Import Base.Prelude Model.BTreeM Model.BTreeStoreM Proofs.BTreeBase Proofs.BTreeWf Proofs.BTreeInsert
  Proofs.BTreeLookup Proofs.BTreeDelete Proofs.BTreeTop Proofs.BTreeCursor Proofs.BTreeHistory
  Proofs.BTreeStore Proofs.BTreeIsolation Proofs.BTreeRefine Proofs.BTreeRefine4 Proofs.BTreeRefine5 Proofs.BTreeRefine6.

(* ---------------------------------------------------------------- abs with explicit fuel *)

Lemma rep_abs_fuel s : forall id tr fp, rep s id tr fp -> forall f, (length fp <= f)%nat -> abs f s id = Some tr.
Proof.
  apply (rep_mind s (fun id tr fp _ => forall f, (length fp <= f)%nat -> abs f s id = Some tr)
           (fun ids trs fps _ => forall f, (length (concat fps) <= f)%nat ->
              (fix go (ks : list nat) : option (list tree) :=
                 match ks with
                 | [] => Some []
                 | k :: r => match abs f s k, go r with Some k', Some r' => Some (k' :: r') | _, _ => None end
                 end) ids = Some trs)).
  - intros id n kids fps Hn Hlk Hr IH Hnd f Hf. destruct f as [|f]; [cbn in Hf; lia|].
    cbn [abs]. rewrite Hn. rewrite (IH f ltac:(cbn in Hf; lia)). reflexivity.
  - reflexivity.
  - intros k ks tr trs fp fps Hr IH Hrs IHs f Hf. cbn [concat] in Hf. rewrite app_length in Hf.
    rewrite (IH f ltac:(lia)). rewrite (IHs f ltac:(lia)). reflexivity.
Qed.

Lemma elts_eqb_refl (l : list elt) :
  (fix ee (x y : list elt) : bool :=
     match x, y with
     | [], [] => true
     | (k, v) :: x', (k', v') :: y' => (k =? k') && (v =? v') && ee x' y'
     | _, _ => false
     end) l l = true.
Proof. induction l as [|(k & v) l IH]; [reflexivity|]. now rewrite !Z.eqb_refl, IH. Qed.

Lemma tree_eqb_refl : forall a, tree_eqb a a = true.
Proof.
  fix IH 1. intros [lf es ks]. cbn [tree_eqb]. rewrite Bool.eqb_reflx, elts_eqb_refl. cbn [andb].
  induction ks as [|k ks IHk]; [reflexivity|]. now rewrite IH, IHk.
Qed.

Lemma forallb_combine {A B} (f : A * B -> bool) : forall (la : list A) (lb : list B),
  (forall k a b, nth_error la k = Some a -> nth_error lb k = Some b -> f (a, b) = true) ->
  forallb f (combine la lb) = true.
Proof.
  induction la as [|a la IH]; intros [|b lb] H; try reflexivity. cbn [combine forallb].
  rewrite (H O a b eq_refl eq_refl). apply IH. intros k a' b' Ha Hb. exact (H (S k) a' b' Ha Hb).
Qed.

Lemma SR_consistent sw w : SR sw (w_trees w) -> consistent sw w = true.
Proof.
  intros (_ & Hlen & Hrel). unfold consistent. rewrite Hlen, Nat.eqb_refl. cbn [andb].
  apply forallb_combine. intros k sb b H1 H2.
  destruct (Hrel k sb b H1 H2) as ((_ & Hsz & Him & _ & fp & Hr) & _).
  rewrite (rep_abs_fuel _ _ _ _ Hr) by (pose proof (fp_le_store _ _ _ _ Hr); lia).
  rewrite tree_eqb_refl, Hsz, Z.eqb_refl, Him, Bool.eqb_reflx. reflexivity.
Qed.

(* ---------------------------------------------------------------- histories with dump requests *)

Inductive hop := HOp (x : vop) | HDump (ti : nat).

Definition henc (h : hop) : obs :=
  match h with HOp x => enc x | HDump ti => L [I 16; nz ti] end.

(* what the run must return: the value-level observation of every step; at a dump also the
   preorder dump of the store with ids and creator tags, and the flag `true` *)
Fixpoint expected (sw : sworld) (w : world) (hs : list hop) : list obs :=
  match hs with
  | [] => []
  | h :: r =>
      let '(w', o) := step w (henc h) in
      let '(sw', _) := sstep sw (henc h) in
      (match h with
       | HOp _ => o
       | HDump ti =>
           match nth_error (sw_trees sw) ti with
           | Some sb => L [o; L (sdump (S (length (sw_store sw))) (sw_store sw) (sb_root sb)); ob true]
           | None => o
           end
       end) :: expected sw' w' r
  end.

Lemma steps2_expected hs : forall sw w, SR sw (w_trees w) -> steps2 sw w (map henc hs) = expected sw w hs.
Proof.
  induction hs as [|h r IH]; intros sw w HSR; [reflexivity|]. destruct h as [x|ti].
  - cbn [map henc expected]. rewrite steps2_cons.
    pose proof (step_vexec x w (fun i b => SR_bwf sw _ i b HSR)) as Hv.
    destruct (step w (enc x)) as (w' & o) eqn:Es. destruct (sstep sw (enc x)) as (sw' & so) eqn:Ess.
    unfold sstep in Ess. cbn [fst snd] in Hv.
    destruct (decode (enc x)) as [y|].
    + destruct Hv as (Htr & Hout). destruct (exec_sim _ _ _ _ _ HSR Ess) as (HSR' & Hso).
      rewrite <- Htr in HSR'. rewrite (IH sw' w' HSR'). f_equal.
      destruct (is_store_op (enc x)); [|reflexivity]. rewrite Hso, <- (Hout eq_refl). now rewrite obs_eqb_refl.
    + destruct Hv as (Htr & Hno). inversion Ess; subst sw' so. rewrite Hno.
      rewrite <- Htr in HSR. now rewrite (IH sw w' HSR).
  - cbn [map henc expected steps2]. unfold nz.
    change (sstep sw (L [I 16; I (Z.of_nat ti)])) with (sw, N).
    assert (Hw : w_trees (fst (step w (L [I 16; I (Z.of_nat ti)]))) = w_trees w).
    { cbv beta iota delta [step]. unfold with_tree. destruct (nth_error (w_trees w) (Z.to_nat (Z.of_nat ti))); reflexivity. }
    destruct (step w (L [I 16; I (Z.of_nat ti)])) as (w' & o). cbn [fst] in Hw.
    rewrite Nat2Z.id. rewrite (SR_consistent sw w HSR). rewrite <- Hw in HSR. now rewrite (IH sw w' HSR).
Qed.

Theorem run_self_check_proof hs :
  BTreeStoreM.run (L (I 0 :: map henc hs)) = L (expected (mkSW [] []) (mkW [] []) hs).
Proof. unfold BTreeStoreM.run. f_equal. apply steps2_expected. cbn [w_trees]. apply SR_empty. Qed.
