(* C19 - copy-on-write discipline of the store-level model: a mutation by the tree with creator c
   writes only nodes tagged c (everything else in the store is left as it is), and keeps the
   typing invariant "children of a node carry a creator visible from the node's creator". *)
From DV Require Import Base.Prelude Model.BTreeM Model.BTreeStoreM Proofs.BTreeBase Proofs.BTreeWf.

(* ---------------------------------------------------------------- list facts *)

Lemma length_set_nth {A} i (x : A) l : length (set_nth i x l) = length l.
Proof. revert i. induction l as [|y l IH]; intros [|i]; cbn; auto. Qed.

Lemma nth_set_nth_eq {A} i (x : A) l : (i < length l)%nat -> nth_error (set_nth i x l) i = Some x.
Proof. revert i. induction l as [|y l IH]; intros [|i] H; cbn in *; try lia; auto. apply IH. lia. Qed.

Lemma nth_set_nth_ne {A} i j (x : A) l : i <> j -> nth_error (set_nth i x l) j = nth_error l j.
Proof. revert i j. induction l as [|y l IH]; intros [|i] [|j] H; cbn; auto; try congruence. Qed.

Lemma Forall_firstn {A} (P : A -> Prop) n l : Forall P l -> Forall P (firstn n l).
Proof. revert l. induction n; intros [|x l] H; cbn; try constructor; inversion H; auto. Qed.
Lemma Forall_skipn {A} (P : A -> Prop) n l : Forall P l -> Forall P (skipn n l).
Proof. revert l. induction n; intros [|x l] H; cbn; auto. inversion H; auto. Qed.

Lemma sget_inv s id n : sget s id = Ok n -> nth_error s id = Some n.
Proof. unfold sget. destruct (nth_error s id); [intros H; inversion H; auto|discriminate]. Qed.

Ltac peel H :=
  match type of H with
  | bind ?e _ = Ok _ =>
      let E := fresh "E" in destruct e eqn:E; cbn [bind] in H; [|discriminate H|discriminate H]
  end.

Section FRAME.
Variable anc : nat -> nat -> Prop.
Hypothesis anc_refl : forall a, anc a a.
Hypothesis anc_trans : forall a b d, anc a b -> anc b d -> anc a d.
Variable c : nat.   (* creator of the tree that mutates *)

Definition vis (s : store) (k id : nat) : Prop := exists n, nth_error s id = Some n /\ anc k (s_cr n).
Definition own (s : store) (id : nat) : Prop := exists n, nth_error s id = Some n /\ s_cr n = c.
Definition store_ok (s : store) : Prop :=
  forall id n, nth_error s id = Some n -> Forall (vis s (s_cr n)) (s_kids n).

(* s' extends s: nothing disappears, creator tags are permanent, and every node whose tag is not
   c is exactly as before *)
Definition ext (s s' : store) : Prop :=
  (length s <= length s')%nat /\
  forall id n, nth_error s id = Some n ->
    (s_cr n <> c -> nth_error s' id = Some n) /\ exists n', nth_error s' id = Some n' /\ s_cr n' = s_cr n.

Lemma ext_refl s : ext s s.
Proof. split; [lia|]. intros id n H. split; eauto. Qed.

Lemma ext_trans s1 s2 s3 : ext s1 s2 -> ext s2 s3 -> ext s1 s3.
Proof.
  intros (L1 & H1) (L2 & H2). split; [lia|]. intros id n Hn.
  destruct (H1 id n Hn) as (Hne & n' & Hn' & Hc'). destruct (H2 id n' Hn') as (Hne' & n'' & Hn'' & Hc'').
  split.
  - intros Hc. apply (proj1 (H2 id n (Hne Hc))). assumption.
  - exists n''. split; [assumption|congruence].
Qed.

Lemma vis_ext s s' k id : ext s s' -> vis s k id -> vis s' k id.
Proof. intros (_ & H) (n & Hn & Ha). destruct (H id n Hn) as (_ & n' & Hn' & Hc). exists n'. split; [assumption|congruence]. Qed.

Lemma own_ext s s' id : ext s s' -> own s id -> own s' id.
Proof. intros (_ & H) (n & Hn & Ha). destruct (H id n Hn) as (_ & n' & Hn' & Hc). exists n'. split; [assumption|congruence]. Qed.

Lemma own_vis s id : own s id -> vis s c id.
Proof. intros (n & Hn & <-). exists n. auto. Qed.

Lemma Forall_vis_ext s s' k l : ext s s' -> Forall (vis s k) l -> Forall (vis s' k) l.
Proof. intros He. apply Forall_impl. intros a. now apply vis_ext. Qed.

Lemma vis_trans s k k' id : anc k k' -> vis s k' id -> vis s k id.
Proof. intros Ha (n & Hn & Hb). exists n. eauto. Qed.

Lemma kids_vis s id n : store_ok s -> nth_error s id = Some n -> s_cr n = c -> Forall (vis s c) (s_kids n).
Proof. intros Hs Hn <-. eauto. Qed.

(* writing an owned node *)
Lemma sset_ok s id n n' :
  store_ok s -> nth_error s id = Some n -> s_cr n = c -> s_cr n' = c -> Forall (vis s c) (s_kids n') ->
  store_ok (sset s id n') /\ ext s (sset s id n').
Proof.
  intros Hs Hn Hc Hc' Hk.
  assert (Hlt : (id < length s)%nat) by (apply nth_error_Some; congruence).
  assert (He : ext s (sset s id n')).
  { split; [unfold sset; rewrite length_set_nth; lia|]. intros j m Hm. unfold sset.
    destruct (Nat.eq_dec id j) as [<-|Hne].
    - rewrite nth_set_nth_eq by assumption. assert (m = n) by congruence. subst m. split; [congruence|eauto with arith].
      exists n'. split; congruence.
    - rewrite nth_set_nth_ne by assumption. split; eauto. }
  split; [|assumption].
  intros j m Hm. unfold sset in Hm.
  destruct (Nat.eq_dec id j) as [<-|Hne].
  - rewrite nth_set_nth_eq in Hm by assumption. inversion Hm; subst m. rewrite Hc'.
    eapply Forall_vis_ext; eassumption.
  - rewrite nth_set_nth_ne in Hm by assumption. eapply Forall_vis_ext; [exact He|]. eauto.
Qed.

Lemma upd_ok s id f s' :
  store_ok s -> own s id ->
  (forall n, nth_error s id = Some n -> s_cr n = c -> s_cr (f n) = c /\ Forall (vis s c) (s_kids (f n))) ->
  upd s id f = Ok s' -> store_ok s' /\ ext s s'.
Proof.
  intros Hs (n & Hn & Hc) Hf H. unfold upd in H. unfold sget in H. rewrite Hn in H. cbn [bind] in H.
  inversion H; subst s'. destruct (Hf n Hn Hc). eapply sset_ok; eauto.
Qed.

Lemma upd_elts_ok s id es s' :
  store_ok s -> own s id -> upd s id (fun n => w_elts n es) = Ok s' -> store_ok s' /\ ext s s'.
Proof.
  intros Hs Ho. apply upd_ok; try assumption. intros n Hn Hc. split; [assumption|]. cbn [s_kids w_kids w_elts]. eapply kids_vis; eauto.
Qed.

Lemma alloc_ok s n :
  store_ok s -> s_cr n = c -> Forall (vis s c) (s_kids n) ->
  store_ok (s ++ [n]) /\ ext s (s ++ [n]) /\ own (s ++ [n]) (length s).
Proof.
  intros Hs Hc Hk.
  assert (He : ext s (s ++ [n])).
  { split; [rewrite app_length; lia|]. intros j m Hm.
    assert ((j < length s)%nat) by (apply nth_error_Some; congruence).
    rewrite nth_error_app1 by assumption. split; eauto. }
  split; [|split; [assumption|]].
  - intros j m Hm. destruct (Nat.lt_ge_cases j (length s)).
    + rewrite nth_error_app1 in Hm by assumption. eapply Forall_vis_ext; [exact He|]. eauto.
    + rewrite nth_error_app2 in Hm by assumption.
      destruct (j - length s)%nat as [|[|]]; cbn in Hm; try discriminate. inversion Hm; subst m. rewrite Hc.
      eapply Forall_vis_ext; eassumption.
  - exists n. split; [|assumption]. rewrite nth_error_app2, Nat.sub_diag by lia. reflexivity.
Qed.

(* ---------------------------------------------------------------- maybe_cow, maybe_cow_child *)

Lemma s_maybe_cow_ok s id s' id' :
  store_ok s -> vis s c id -> s_maybe_cow s id c = Ok (s', id') ->
  store_ok s' /\ ext s s' /\ own s' id'.
Proof.
  intros Hs (n & Hn & Ha) H. unfold s_maybe_cow in H. unfold sget in H. rewrite Hn in H. cbn [bind] in H.
  destruct (Nat.eqb_spec (s_cr n) c) as [Hc|Hc].
  - inversion H; subst. split; [assumption|]. split; [apply ext_refl|]. exists n. auto.
  - injection H as H' H''. subst s' id'.
    apply (alloc_ok s (mkS c (s_leaf n) (s_elts n) (if s_leaf n then [] else s_kids n)) Hs eq_refl).
    cbn. destruct (s_leaf n); [constructor|]. eapply Forall_impl; [|apply (Hs id n Hn)].
    intros a. apply vis_trans. assumption.
Qed.

Lemma s_maybe_cow_child_ok s pid index s' cid :
  store_ok s -> own s pid -> s_maybe_cow_child s pid index = Ok (s', cid) ->
  store_ok s' /\ ext s s' /\ own s' cid.
Proof.
  intros Hs (p & Hp & Hc) H. unfold s_maybe_cow_child in H. unfold sget at 1 in H. rewrite Hp in H. cbn [bind] in H.
  destruct (s_leaf p); [discriminate|].
  peel H. destruct a as ((ka & cid0) & kb). apply split_at_inv in E as (Hk & _).
  pose proof (kids_vis s pid p Hs Hp Hc) as Hkv. rewrite Hk in Hkv. apply Forall_mid in Hkv as (Hka & Hcid0 & Hkb).
  peel H. destruct a as (s1 & cid'). rewrite Hc in E.
  destruct (s_maybe_cow_ok _ _ _ _ Hs Hcid0 E) as (Hs1 & He1 & Ho1).
  destruct (Nat.eqb_spec cid' cid0).
  - inversion H; subst. auto.
  - peel H. inversion H; subst a cid. clear H.
    assert (Hop : own s1 pid) by (eapply own_ext; [exact He1|]; exists p; auto).
    assert (Hs2e : store_ok s' /\ ext s1 s'); [|destruct Hs2e as (Hs2 & He2)].
    { eapply upd_ok; [exact Hs1|exact Hop| |exact E0]. intros n0 Hn0 Hc0. split; [assumption|]. cbn [s_kids w_kids w_elts]. apply Forall_mid. repeat split.
      - eapply Forall_vis_ext; eassumption.
      - now apply own_vis.
      - eapply Forall_vis_ext; eassumption. }
    split; [assumption|]. split; [eapply ext_trans; eassumption|]. eapply own_ext; eassumption.
Qed.

(* ---------------------------------------------------------------- chaining *)

Definition G (s s' : store) : Prop := store_ok s' /\ ext s s'.

Lemma G_refl s : store_ok s -> G s s.
Proof. intros H. split; [assumption|apply ext_refl]. Qed.

Lemma G_trans s1 s2 s3 : G s1 s2 -> G s2 s3 -> G s1 s3.
Proof. intros (_ & E1) (H2 & E2). split; [assumption|eapply ext_trans; eassumption]. Qed.

Lemma sget_own s id n : own s id -> sget s id = Ok n -> s_cr n = c.
Proof. intros (m & Hm & Hc) H. apply sget_inv in H. congruence. Qed.

Lemma sget_kids s id n : store_ok s -> own s id -> sget s id = Ok n -> Forall (vis s c) (s_kids n).
Proof. intros Hs Ho H. pose proof (sget_own _ _ _ Ho H). apply sget_inv in H. eapply kids_vis; eauto. Qed.

Lemma upd_G s id f s' :
  store_ok s -> own s id ->
  (forall n, nth_error s id = Some n -> s_cr n = c -> s_cr (f n) = c /\ Forall (vis s c) (s_kids (f n))) ->
  upd s id f = Ok s' -> G s s'.
Proof. intros. eapply upd_ok; eauto. Qed.

Lemma upd_elts_G s id es s' : store_ok s -> own s id -> upd s id (fun n => w_elts n es) = Ok s' -> G s s'.
Proof. intros. eapply upd_elts_ok; eauto. Qed.

Lemma upd_elts_G' s id (g : snode -> list elt) s' : store_ok s -> own s id -> upd s id (fun n => w_elts n (g n)) = Ok s' -> G s s'.
Proof.
  intros Hs Ho. apply upd_G; try assumption. intros n Hn Hc. split; [assumption|]. cbn [s_kids w_kids w_elts]. eapply kids_vis; eauto.
Qed.

Lemma sset_G s id n n' :
  store_ok s -> own s id -> sget s id = Ok n -> s_cr n' = c -> Forall (vis s c) (s_kids n') -> G s (sset s id n').
Proof.
  intros Hs Ho Hn Hc Hk. pose proof (sget_own _ _ _ Ho Hn). apply sget_inv in Hn. eapply sset_ok; eauto.
Qed.

Hint Resolve own_ext own_vis vis_ext : cow.
Ltac ownx := eauto 8 using own_ext, vis_ext, own_vis.
Ltac updG E := eapply upd_G; [ | | |exact E]; [eauto|ownx|].
Ltac updGa := match goal with |- G ?a ?b => match goal with E : upd a _ _ = Ok b |- _ => updG E end end.
Ltac updEa := match goal with |- G ?a ?b => match goal with E : upd a _ _ = Ok b |- _ =>
                eapply upd_elts_G; [ | |exact E]; [eauto|ownx] end end.
Ltac updEa' := match goal with |- G ?a ?b => match goal with E : upd a _ _ = Ok b |- _ =>
                eapply upd_elts_G'; [ | |exact E]; [eauto|ownx] end end.
Ltac gx := match goal with
           | H1 : G ?a ?b |- _ => destruct H1 as (? & ?)
           end.

(* ---------------------------------------------------------------- split / adopt *)

Lemma s_split_ok t s id s' mid rid :
  store_ok s -> own s id -> s_split t s id = Ok (s', mid, rid) -> G s s' /\ own s' rid.
Proof.
  intros Hs Ho H. unfold s_split in H. peel H. rename a into n. peel H. destruct (negb a); [discriminate|].
  pose proof (sget_own _ _ _ Ho E) as Hc. pose proof (sget_kids _ _ _ Hs Ho E) as Hk.
  unfold alloc in H. destruct (nth_error (s_elts n) (t_min t)); [|discriminate].
  set (rn := mkS (s_cr n) (s_leaf n) (skipn (S (t_min t)) (s_elts n)) (if s_leaf n then [] else skipn (S (t_min t)) (s_kids n))) in *.
  destruct (alloc_ok s rn Hs Hc) as (Hs1 & He1 & Ho1).
  { unfold rn. cbn [s_kids]. destruct (s_leaf n); [constructor|]. now apply Forall_skipn. }
  peel H. inversion H; subst. clear H.
  assert (G (s ++ [rn]) s') as (Hs2 & He2).
  { updG E1. intros m Hm Hcm. split; [assumption|]. cbn [s_kids w_kids w_elts].
    pose proof (kids_vis _ _ _ Hs1 Hm Hcm). destruct (s_leaf m); [assumption|]. now apply Forall_firstn. }
  split; [split; [assumption|eapply ext_trans; eassumption]|ownx].
Qed.

Lemma s_adopt_ok t s pid lid mid rid s' :
  store_ok s -> own s pid -> vis s c lid -> vis s c rid -> s_adopt t s pid lid mid rid = Ok s' -> G s s'.
Proof.
  intros Hs Ho Hl Hr H. unfold s_adopt in H. peel H. rename a into p. peel H. destruct a; [discriminate|].
  destruct (s_leaf p); [discriminate|]. peel H. destruct a as (i & eq). destruct eq; [discriminate|].
  pose proof (sget_own _ _ _ Ho E) as Hc. pose proof (sget_kids _ _ _ Hs Ho E) as Hk.
  destruct (s_kids p) eqn:Ek.
  - inversion H; subst s'. eapply sset_G; eauto. cbn [s_kids]. repeat constructor; assumption.
  - destruct (nth_error (n :: l) i); [|discriminate]. destruct (n0 =? lid)%nat; [|discriminate].
    inversion H; subst s'. eapply sset_G; eauto. cbn [s_kids]. unfold insert_at. apply Forall_app. split.
    + now apply Forall_firstn.
    + constructor; [assumption|now apply Forall_skipn].
Qed.

(* ---------------------------------------------------------------- steals, merge, balance *)

Lemma s_try_right_steal_ok t s selfid pid index s' b :
  store_ok s -> own s selfid -> own s pid -> s_try_right_steal t s selfid pid index = Ok (s', b) -> G s s'.
Proof.
  intros Hs Hself Hp H. unfold s_try_right_steal in H. peel H. rename a into p.
  destruct (nth_error (s_kids p) (S index)); [|inversion H; subst; now apply G_refl].
  peel H. peel H. destruct a0; [inversion H; subst; now apply G_refl|].
  peel H. destruct a0 as (s1 & rid).
  destruct (s_maybe_cow_child_ok _ _ _ _ _ Hs Hp E2) as (Hs1 & He1 & Hor).
  peel H. peel H. destruct a1 as ((ea & pe) & eb). peel H. rename a1 into r.
  destruct (s_elts r) as [|re res']; [discriminate|].
  peel H. rename a1 into s2. assert (G s1 s2) as (Hs2 & He2) by updEa.
  peel H. rename a1 into s3. assert (G s2 s3) as (Hs3 & He3) by updEa.
  peel H. rename a1 into s4. assert (G s3 s4) as (Hs4 & He4) by updEa'.
  assert (He14 : ext s s4) by (repeat (eapply ext_trans; [eassumption|]); apply ext_refl).
  peel H. rename a1 into r'. destruct (s_leaf r').
  { inversion H; subst. split; assumption. }
  peel H. destruct (s_leaf a1); [discriminate|].
  assert (Hor4 : own s4 rid) by ownx.
  match goal with E : sget s4 rid = Ok _ |- _ => pose proof (sget_kids _ _ _ Hs4 Hor4 E) as Hrk end.
  destruct (s_kids r') as [|rc rks']; [discriminate|]. inversion Hrk; subst.
  peel H. rename a2 into s5.
  assert (G s4 s5) as (Hs5 & He5).
  { updGa. intros m Hm Hcm. split; assumption. }
  peel H. rename a2 into s6.
  assert (G s5 s6) as (Hs6 & He6).
  { updGa. intros m Hm Hcm. split; [assumption|]. cbn [s_kids w_kids w_elts]. apply Forall_app. split.
    - eapply kids_vis; eauto.
    - constructor; [ownx|constructor]. }
  inversion H; subst. split; [assumption|]. repeat (eapply ext_trans; [eassumption|]). apply ext_refl.
Qed.

Lemma pop_last_inv {A} (l l' : list A) x : pop_last l = Ok (l', x) -> l = l' ++ [x].
Proof.
  unfold pop_last. destruct (rev l) eqn:E; [discriminate|]. intros H; inversion H; subst.
  rewrite <- (rev_involutive l), E. reflexivity.
Qed.

Lemma s_try_left_steal_ok t s selfid pid index s' b :
  store_ok s -> own s selfid -> own s pid -> s_try_left_steal t s selfid pid index = Ok (s', b) -> G s s'.
Proof.
  intros Hs Hself Hp H. unfold s_try_left_steal in H.
  destruct index as [|im]; [inversion H; subst; now apply G_refl|].
  peel H. rename a into p. peel H. destruct a as ((? & lid0) & ?). peel H. peel H.
  destruct a0; [inversion H; subst; now apply G_refl|].
  peel H. destruct a0 as (s1 & lid).
  destruct (s_maybe_cow_child_ok _ _ _ _ _ Hs Hp E3) as (Hs1 & He1 & Hol).
  peel H. peel H. destruct a1 as ((ea & pe) & eb). peel H. rename a1 into ln. peel H. destruct a1 as (les' & le).
  peel H. rename a1 into s2. assert (G s1 s2) as (Hs2 & He2) by updEa.
  peel H. rename a1 into s3. assert (G s2 s3) as (Hs3 & He3) by updEa.
  peel H. rename a1 into s4. assert (G s3 s4) as (Hs4 & He4) by updEa'.
  assert (He14 : ext s s4) by (repeat (eapply ext_trans; [eassumption|]); apply ext_refl).
  peel H. rename a1 into l'. destruct (s_leaf l').
  { inversion H; subst. split; assumption. }
  peel H. destruct (s_leaf a1); [discriminate|].
  assert (Hol4 : own s4 lid) by ownx.
  match goal with E : sget s4 lid = Ok _ |- _ => pose proof (sget_kids _ _ _ Hs4 Hol4 E) as Hlk end.
  peel H. destruct a2 as (lks' & lc). match goal with E : pop_last (s_kids _) = Ok _ |- _ => apply pop_last_inv in E; rewrite E in Hlk end.
  apply Forall_app in Hlk as (Hlks' & Hlc). inversion Hlc; subst.
  peel H. rename a2 into s5.
  assert (G s4 s5) as (Hs5 & He5).
  { updGa. intros m Hm Hcm. split; assumption. }
  peel H. rename a2 into s6.
  assert (G s5 s6) as (Hs6 & He6).
  { updGa. intros m Hm Hcm. split; [assumption|]. cbn [s_kids w_kids w_elts]. constructor; [ownx|].
    eapply kids_vis; eauto. }
  inversion H; subst. split; [assumption|]. repeat (eapply ext_trans; [eassumption|]). apply ext_refl.
Qed.

Lemma s_merge_ok s selfid pid index s' :
  store_ok s -> own s selfid -> own s pid -> s_merge s selfid pid index = Ok s' -> G s s'.
Proof.
  intros Hs Hself Hp H. unfold s_merge in H. peel H. rename a into p. peel H. destruct a as ((ka & rid) & kb).
  pose proof (sget_kids _ _ _ Hs Hp E) as Hpk.
  match goal with E : split_at (S index) _ = Ok _ |- _ => apply split_at_inv in E as (Hk & _) end. rewrite Hk in Hpk.
  apply Forall_mid in Hpk as (Hka & Hrid & Hkb).
  peel H. rename a into s1.
  assert (G s s1) as (Hs1 & He1).
  { updGa. intros m Hm Hcm. split; [assumption|]. cbn [s_kids w_kids w_elts]. apply Forall_app. auto. }
  peel H. peel H. destruct a0 as ((ea & pe) & eb).
  peel H. rename a0 into s2. assert (G s1 s2) as (Hs2 & He2) by updEa.
  peel H. rename a0 into r.
  peel H. rename a0 into s3. assert (G s2 s3) as (Hs3 & He3) by updEa'.
  assert (He03 : ext s s3) by (repeat (eapply ext_trans; [eassumption|]); apply ext_refl).
  peel H. destruct (s_leaf a0).
  { inversion H; subst. split; assumption. }
  assert (G s3 s') as (Hs4 & He4).
  { updGa. intros m Hm Hcm. split; [assumption|]. cbn [s_kids w_kids w_elts]. apply Forall_app. split.
    - eapply kids_vis; eauto.
    - (* the children of the right sibling: visible from its creator, which is visible from c *)
      assert (Hrv : vis s2 c rid) by ownx. destruct Hrv as (rn & Hrn & Hra).
      match goal with E : sget s2 rid = Ok r |- _ => apply sget_inv in E; assert (rn = r) by congruence end. subst rn.
      eapply Forall_vis_ext; [exact He3|]. eapply Forall_impl; [|apply (Hs2 rid r Hrn)].
      intros x. apply vis_trans. assumption. }
  split; [assumption|]. eapply ext_trans; eassumption.
Qed.

Lemma s_balance_ok t s selfid pid index s' :
  store_ok s -> own s selfid -> own s pid -> s_balance t s selfid pid index = Ok s' -> G s s'.
Proof.
  intros Hs Hself Hp H. unfold s_balance in H. peel H. destruct (s_leaf a); [discriminate|].
  peel H. destruct a0 as (s1 & ok1).
  destruct (s_try_left_steal_ok _ _ _ _ _ _ _ Hs Hself Hp E0) as (Hs1 & He1).
  destruct ok1; [inversion H; subst; split; assumption|].
  peel H. destruct a0 as (s2 & ok2).
  destruct (s_try_right_steal_ok t s1 selfid pid index s2 ok2 Hs1) as (Hs2 & He2); [ownx|ownx|assumption|].
  destruct ok2; [inversion H; subst; split; [assumption|eapply ext_trans; eassumption]|].
  assert (He02 : ext s s2) by (eapply ext_trans; eassumption).
  destruct index as [|im].
  - destruct (s_merge_ok s2 selfid pid 0 s' Hs2) as (Hs3 & He3); [ownx|ownx|assumption|].
    split; [assumption|eapply ext_trans; eassumption].
  - peel H. destruct a0 as (s3 & lid).
    destruct (s_maybe_cow_child_ok s2 pid im s3 lid Hs2) as (Hs3 & He3 & Hol); [ownx|assumption|].
    destruct (s_merge_ok s3 lid pid im s' Hs3) as (Hs4 & He4); [ownx|ownx|assumption|].
    split; [assumption|]. repeat (eapply ext_trans; [eassumption|]). apply ext_refl.
Qed.

(* ---------------------------------------------------------------- insertion *)

Lemma s_opt_loop_ok t : forall fuel s lid pid li s',
  store_ok s -> own s lid -> own s pid -> s_opt_loop fuel t s lid pid li = Ok s' -> G s s'.
Proof.
  induction fuel as [|f IH]; intros s lid pid li s' Hs Hl Hp H; [discriminate|].
  cbn [s_opt_loop] in H. peel H.
  destruct (length (s_elts a) <? t_max t)%nat; [|inversion H; subst; now apply G_refl].
  peel H. destruct a0 as (s1 & ok).
  destruct (s_try_right_steal_ok _ _ _ _ _ _ _ Hs Hl Hp E0) as (Hs1 & He1).
  destruct ok; [|inversion H; subst; split; assumption].
  destruct (IH s1 lid pid li s' Hs1) as (Hs2 & He2); [ownx|ownx|assumption|].
  split; [assumption|eapply ext_trans; eassumption].
Qed.

Lemma s_optimize_ok t s pid index s' :
  store_ok s -> own s pid -> s_optimize t s pid index = Ok s' -> G s s'.
Proof.
  intros Hs Hp H. unfold s_optimize in H. destruct index as [|li]; [inversion H; subst; now apply G_refl|].
  peel H. peel H. destruct a0 as ((? & lid0) & ?). peel H.
  destruct (length (s_elts a0) =? t_max t)%nat; [inversion H; subst; now apply G_refl|].
  peel H. destruct a1 as (s1 & lid).
  destruct (s_maybe_cow_child_ok _ _ _ _ _ Hs Hp E2) as (Hs1 & He1 & Hol).
  destruct (s_opt_loop_ok t (S (t_max t)) s1 lid pid li s' Hs1) as (Hs2 & He2); [assumption|ownx|assumption|].
  split; [assumption|eapply ext_trans; eassumption].
Qed.

Definition srec_ok (rec : store -> nat -> res (store * option elt)) : Prop :=
  forall s id s' o, store_ok s -> own s id -> rec s id = Ok (s', o) -> G s s'.

Lemma s_ins_iter_ok t io rec again s id e s' o :
  srec_ok rec ->
  (forall s1 s2 o2, store_ok s1 -> own s1 id -> again s1 = Ok (s2, o2) -> G s1 s2) ->
  store_ok s -> own s id -> s_ins_iter t io rec again s id e = Ok (s', o) -> G s s'.
Proof.
  intros Hrec Hagain Hs Ho H. unfold s_ins_iter in H. peel H. rename a into n. peel H. destruct a as (i & eq).
  pose proof (sget_kids _ _ _ Hs Ho E) as Hk.
  destruct eq.
  { peel H. destruct a as ((ea & old) & eb). inversion H; subst. eapply sset_G; [exact Hs|exact Ho|exact E|cbn; eapply sget_own; eauto|exact Hk]. }
  destruct (s_leaf n).
  { inversion H; subst. eapply sset_G; [exact Hs|exact Ho|exact E|cbn; eapply sget_own; eauto|exact Hk]. }
  peel H. destruct a as (s1 & cid).
  destruct (s_maybe_cow_child_ok _ _ _ _ _ Hs Ho E1) as (Hs1 & He1 & Hoc).
  peel H. peel H. destruct a0.
  - peel H. destruct a0 as ((s2 & mid) & rid).
    destruct (s_split_ok _ _ _ _ _ _ Hs1 Hoc E4) as ((Hs2 & He2) & Hor).
    peel H. rename a0 into s3.
    destruct (s_adopt_ok t s2 id cid mid rid s3 Hs2) as (Hs3 & He3); [ownx|ownx|ownx|assumption|].
    destruct (Hagain s3 s' o Hs3) as (Hs4 & He4); [ownx|assumption|].
    split; [assumption|]. repeat (eapply ext_trans; [eassumption|]). apply ext_refl.
  - peel H. destruct a0 as (s2 & o2).
    destruct (Hrec s1 cid s2 o2 Hs1 Hoc E4) as (Hs2 & He2).
    destruct io.
    + peel H. inversion H; subst.
      destruct (s_optimize_ok t s2 id i s' Hs2) as (Hs3 & He3); [ownx|assumption|].
      split; [assumption|]. repeat (eapply ext_trans; [eassumption|]). apply ext_refl.
    + inversion H; subst. split; [assumption|eapply ext_trans; eassumption].
Qed.

Lemma s_ins_ok t io e : forall fuel s id s' o,
  store_ok s -> own s id -> s_ins t fuel io s id e = Ok (s', o) -> G s s'.
Proof.
  induction fuel as [|f IH]; intros s id s' o Hs Ho H; [discriminate|].
  cbn [s_ins] in H. peel H. peel H. destruct a0; [discriminate|].
  assert (Hrec : srec_ok (fun s c => s_ins t f io s c e)).
  { intros s0 id0 s0' o0 Hs0 Ho0 H0. eapply IH; eauto. }
  eapply s_ins_iter_ok; [exact Hrec| |exact Hs|exact Ho|exact H].
  intros s1 s2 o2 Hs1 Ho1 H1. eapply s_ins_iter_ok; [exact Hrec| |exact Hs1|exact Ho1|exact H1].
  intros ? ? ? _ _ Hd. discriminate.
Qed.

(* ---------------------------------------------------------------- deletion *)

Lemma s_replace_key_ok k e : forall fuel s id s' old,
  store_ok s -> own s id -> s_replace_key fuel s id k e = Ok (s', old) -> G s s'.
Proof.
  induction fuel as [|f IH]; intros s id s' old Hs Ho H; [discriminate|].
  cbn [s_replace_key] in H. peel H. rename a into n. peel H. destruct a as (i & eq).
  pose proof (sget_kids _ _ _ Hs Ho E) as Hk.
  destruct eq.
  { peel H. destruct a as ((ea & o) & eb). inversion H; subst. eapply sset_G; [exact Hs|exact Ho|exact E|cbn; eapply sget_own; eauto|exact Hk]. }
  destruct (s_leaf n); [discriminate|].
  peel H. destruct a as (s1 & cid).
  destruct (s_maybe_cow_child_ok _ _ _ _ _ Hs Ho E1) as (Hs1 & He1 & Hoc).
  destruct (IH s1 cid s' old Hs1 Hoc H) as (Hs2 & He2).
  split; [assumption|eapply ext_trans; eassumption].
Qed.

Definition sdrec_ok (rec : store -> nat -> Z -> option Z -> res (store * dout)) : Prop :=
  forall s id key ex s' o, store_ok s -> own s id -> rec s id key ex = Ok (s', o) -> G s s'.

Lemma s_del_down_ok t rec s id key i exact s' o :
  sdrec_ok rec -> store_ok s -> own s id -> s_del_down t rec s id key i exact = Ok (s', o) -> G s s'.
Proof.
  intros Hrec Hs Ho H. unfold s_del_down in H. peel H. destruct a as (s1 & cid).
  destruct (s_maybe_cow_child_ok _ _ _ _ _ Hs Ho E) as (Hs1 & He1 & Hoc).
  peel H. peel H. peel H. destruct a1 as (s2 & cid2).
  destruct a0.
  - peel E2. rename a0 into s2'.
    destruct (s_balance_ok t s1 cid id i s2' Hs1 Hoc) as (Hs2 & He2); [ownx|assumption|].
    peel E2. rename a0 into n2. peel E2. destruct a0 as (i1 & eq1). destruct eq1; [discriminate|].
    peel E2. destruct a0 as ((? & c2id) & ?). peel E2. rename a0 into c2.
    destruct (Nat.eqb_spec (s_cr c2) (s_cr n2)) as [Hcc|Hcc]; cbn [negb] in E2; [|discriminate].
    peel E2. destruct a0; [discriminate|].
    inversion E2; subst s2' c2id. clear E2.
    assert (Hon : own s2 id) by ownx.
    assert (Hoc2 : own s2 cid2).
    { exists c2. split; [now apply sget_inv|]. rewrite Hcc. eapply sget_own; eauto. }
    destruct (Hrec s2 cid2 key exact s' o Hs2 Hoc2 H) as (Hs3 & He3).
    split; [assumption|]. repeat (eapply ext_trans; [eassumption|]). apply ext_refl.
  - inversion E2; subst s2 cid2. clear E2.
    destruct (Hrec s1 cid key exact s' o Hs1 Hoc H) as (Hs2 & He2).
    split; [assumption|eapply ext_trans; eassumption].
Qed.

Lemma s_del_ok t : forall fuel isroot s id key exact s' o,
  store_ok s -> own s id -> s_del t fuel isroot s id key exact = Ok (s', o) -> G s s'.
Proof.
  induction fuel as [|f IH]; intros isroot s id key exact s' o Hs Ho H; [discriminate|].
  cbn [s_del] in H. peel H. rename a into n. peel H. destruct a; [discriminate|]. peel H. destruct a as (i & eq).
  assert (Hrec : sdrec_ok (fun s c k ex => s_del t f false s c k ex)).
  { intros s0 id0 k0 ex0 s0' o0 Hs0 Ho0 H0. eapply IH; eauto. }
  pose proof (sget_kids _ _ _ Hs Ho E) as Hk.
  destruct eq.
  - peel H. destruct a as ((ea & found) & eb).
    destruct (exact_mismatch exact found); [inversion H; subst; now apply G_refl|].
    destruct (s_leaf n).
    { inversion H; subst. eapply sset_G; [exact Hs|exact Ho|exact E|cbn; eapply sget_own; eauto|exact Hk]. }
    peel H. destruct a as ((? & rk) & ?). peel H. peel H. destruct a0 as (s1 & o1).
    match goal with E : s_del_down _ _ _ _ _ _ _ = Ok _ |- _ =>
      destruct (s_del_down_ok _ _ _ _ _ _ _ _ _ Hrec Hs Ho E) as (Hs1 & He1) end.
    destruct o1; try discriminate.
    peel H. destruct a0 as (s2 & old). inversion H; subst.
    assert (G s1 s') as (Hs2 & He2).
    { match goal with E : s_replace_key _ _ _ _ _ = Ok _ |- _ =>
        eapply s_replace_key_ok; [exact Hs1| |exact E]; ownx end. }
    split; [assumption|eapply ext_trans; eassumption].
  - destruct (s_leaf n); [inversion H; subst; now apply G_refl|].
    eapply s_del_down_ok; eauto.
Qed.

(* BTree.insert_element / BTree._delete on the store *)
Lemma s_insert_element_ok s b e io s' b' o :
  store_ok s -> vis s c (sb_root b) -> sb_cr b = c ->
  s_insert_element s b e io = Ok (s', b', o) ->
  G s s' /\ own s' (sb_root b') /\ sb_cr b' = c /\ sb_immut b' = false.
Proof.
  intros Hs Hv Hc H. unfold s_insert_element in H. destruct (sb_immut b); [discriminate|].
  rewrite Hc in H. peel H. destruct a as (s1 & root1).
  destruct (s_maybe_cow_ok _ _ _ _ Hs Hv E) as (Hs1 & He1 & Ho1).
  peel H. peel H. peel H. destruct a1 as (s2 & root2).
  assert (Hstep : G s1 s2 /\ own s2 root2).
  { destruct a0.
    - unfold alloc in E2.
      destruct (alloc_ok s1 (mkS c false [] []) Hs1 eq_refl) as (Hsa & Hea & Hoa); [constructor|].
      peel E2. destruct a0 as ((s2' & mid) & rid).
      destruct (s_split_ok (sb_t b) (s1 ++ [mkS c false [] []]) root1 s2' mid rid Hsa) as ((Hsb & Heb) & Hor); [ownx|assumption|].
      peel E2. inversion E2; subst a0 root2. clear E2.
      assert (G s2' s2) as (Hsc & Hec).
      { match goal with E : s_adopt _ _ _ _ _ _ = Ok _ |- _ =>
          eapply s_adopt_ok; [exact Hsb| | | |exact E]; ownx end. }
      split; [split; [assumption|]|ownx]. repeat (eapply ext_trans; [eassumption|]). apply ext_refl.
    - inversion E2; subst. split; [now apply G_refl|assumption]. }
  destruct Hstep as ((Hs2 & He2) & Ho2).
  peel H. destruct a1 as (s3 & o3). inversion H; subst. cbn [sb_root sb_cr sb_immut].
  match goal with E : s_ins _ _ _ _ _ _ = Ok _ |- _ =>
    destruct (s_ins_ok _ _ _ _ _ _ _ _ Hs2 Ho2 E) as (Hs3 & He3) end.
  split; [split; [assumption|]|split; [ownx|split; reflexivity]]. repeat (eapply ext_trans; [eassumption|]). apply ext_refl.
Qed.

Lemma s_delete_ok s b key exact s' b' o :
  store_ok s -> vis s c (sb_root b) -> sb_cr b = c ->
  s_delete s b key exact = Ok (s', b', o) ->
  G s s' /\ vis s' c (sb_root b') /\ sb_cr b' = c /\ sb_immut b' = false.
Proof.
  intros Hs Hv Hc H. unfold s_delete in H. destruct (sb_immut b); [discriminate|].
  rewrite Hc in H. peel H. destruct a as (s1 & root1).
  destruct (s_maybe_cow_ok _ _ _ _ Hs Hv E) as (Hs1 & He1 & Ho1).
  peel H. destruct a as (s2 & o2).
  destruct (s_del_ok _ _ _ _ _ _ _ _ _ Hs1 Ho1 E0) as (Hs2 & He2).
  peel H. rename a into r2. peel H. inversion H; subst. cbn [sb_root sb_cr sb_immut].
  assert (Ho2 : own s' root1) by ownx.
  split; [split; [assumption|eapply ext_trans; eassumption]|split; [|split; reflexivity]].
  pose proof (sget_kids _ _ _ Hs2 Ho2 E1) as Hk.
  destruct (s_elts r2); [|inversion E2; subst; ownx].
  destruct (s_leaf r2); [inversion E2; subst; ownx|].
  destruct (s_kids r2) as [|k [|]]; try discriminate. inversion E2; subst. inversion Hk; subst. assumption.
Qed.

End FRAME.
