(* C13 - a dropped / duplicated addition-section SOA: the additions are then taken as deletions of
   records that are not there. *)
From DV Require Import Base.Prelude Model.XfrM Proofs.XfrSets Proofs.XfrSpec Proofs.XfrZone Proofs.XfrDiff
  Proofs.XfrSafety Proofs.XfrBasic Proofs.XfrRun Proofs.XfrIxfr Proofs.XfrAxfr Proofs.XfrPerm Proofs.XfrOrder
  Proofs.XfrFault Proofs.XfrGlue Proofs.XfrSections Proofs.XfrGroup Proofs.XfrSoaFaults.

(* the zone after the deletions of a difference a -> b, entry by entry *)
Lemma diff_dels_look : forall a b z z1, rest_wf a -> rest_wf b ->
  (forall k, k <> soakey -> look z k = look a k) ->
  dels z (zminus a b) = Some z1 ->
  forall k, k <> soakey -> look z1 k = after_del (look a k) (look b k).
Proof.
  intros a b z z1 Ha Hb Hz Hd k Hk.
  destruct (dels_entries (sel_minus b) a z) as [z1' [Hd' Hl]].
  { destruct Ha; assumption. }
  { intros k0 t Sa Hin. assert (Hla : look a k0 = Some (t, Sa)) by (apply look_in; [destruct Ha|]; assumption).
    destruct (rest_wf_entry a k0 t Sa Ha Hla) as (_ & Hs & _ & Hk0 & _).
    split; [rewrite Hz; assumption|]. unfold sel_minus. cbn [fst snd]. split.
    - apply ssorted_NoDup, filter_sorted, Hs.
    - intros x Hx. apply filter_In in Hx. tauto. }
  rewrite zminus_sel in Hd. rewrite Hd' in Hd. inversion Hd; subst z1'.
  rewrite Hl. unfold after_del, sel_minus. destruct (look a k) as [[t Sa]|] eqn:Ea; cbn [fst snd].
  - reflexivity.
  - rewrite Hz, Ea by assumption. reflexivity.
Qed.

Lemma body_in_look : forall z r, rest_wf z -> In r (body z) ->
  exists S0, look z (rkey r) = Some (r_ttl r, S0) /\ In (r_data r) S0 /\ rkey r <> soakey.
Proof.
  intros z r Hwf Hin. unfold body in Hin. apply in_flat_map in Hin. destruct Hin as [[k [t ds]] [Hke Hr]].
  rewrite rrs_of_entry_mk in Hr. apply in_map_iff in Hr. destruct Hr as [d [<- Hd]].
  rewrite rkey_mk_rr, r_ttl_mk_rr, r_data_mk_rr. exists ds.
  assert (Hl : look z k = Some (t, ds)) by (apply look_in; [destruct Hwf|]; assumption).
  split; [exact Hl|]. split; [exact Hd|].
  destruct (rest_wf_entry z k t ds Hwf Hl) as (_ & _ & _ & Hk & _). exact Hk.
Qed.

(* a record that the difference a -> b adds is not in the zone once the deletions are done *)
Lemma added_absent : forall a b z z1 r, rest_wf a -> rest_wf b ->
  (forall k, k <> soakey -> look z k = look a k) ->
  dels z (zminus a b) = Some z1 -> In r (zminus b a) ->
  del1 (look z1 (rkey r)) (r_data r) = None.
Proof.
  intros a b z z1 r Ha Hb Hz Hd Hin. unfold zminus in Hin. apply filter_In in Hin. destruct Hin as [Hbody Hnot].
  apply negb_true_iff in Hnot.
  destruct (body_in_look b r Hb Hbody) as [Sb [Hlb [Hdb Hk]]].
  rewrite (diff_dels_look a b z z1 Ha Hb Hz Hd _ Hk). rewrite Hlb.
  unfold has_rr in Hnot. unfold after_del.
  destruct (look a (rkey r)) as [[t Sa]|] eqn:Ea; [|reflexivity].
  (* what is left of the entry: the records of Sa that are also in b with the same TTL *)
  assert (REST : forall D, (forall d, In d D -> In d Sa /\ ((r_ttl r =? t) && mem d Sb) = true) ->
                 del1 (norm t D) (r_data r) = None).
  { intros D HD. unfold norm. destruct D as [|d0 D0] eqn:ED; [reflexivity|]. rewrite <- ED in *.
    cbn [del1]. destruct (mem (r_data r) D) eqn:Hm; [|reflexivity]. exfalso.
    apply mem_In in Hm. destruct (HD _ Hm) as [HinSa Hc]. apply andb_true_iff in Hc. destruct Hc as [Ht _].
    apply Z.eqb_eq in Ht.
    assert ((t =? r_ttl r) = true) by (apply Z.eqb_eq; congruence).
    rewrite H in Hnot. cbn [andb] in Hnot. apply mem_In in HinSa. congruence. }
  destruct (filter (fun d => negb (has_in (Some (r_ttl r, Sb)) t d)) Sa) as [|x D] eqn:EF.
  - (* nothing was deleted from this entry *)
    cbn [del1]. destruct (mem (r_data r) Sa) eqn:Hm; [|reflexivity]. exfalso.
    assert (Hf := filter_nil_all _ _ EF (r_data r) (proj1 (mem_In _ _) Hm)).
    apply negb_false_iff in Hf. cbn [has_in] in Hf. apply andb_true_iff in Hf. destruct Hf as [Ht _].
    apply Z.eqb_eq in Ht. assert ((t =? r_ttl r) = true) by (apply Z.eqb_eq; congruence).
    rewrite H in Hnot. discriminate.
  - rewrite <- EF. apply REST. intros d Hdd. apply diff_In in Hdd. destruct Hdd as [HdSa Hnd].
    split; [exact HdSa|].
    destruct ((r_ttl r =? t) && mem d Sb) eqn:E; [reflexivity|]. exfalso. apply Hnd.
    apply filter_In. split; [exact HdSa|]. cbn [has_in]. rewrite E. reflexivity.
Qed.

Lemma removelast_cons : forall {A} (y : A) l, l <> [] -> removelast (y :: l) = y :: removelast l.
Proof. intros A y [|x l] H; [congruence|reflexivity]. Qed.

Lemma in_removelast_mid : forall {A} (c1 : list A) b c2, c2 <> [] -> In b (removelast (c1 ++ b :: c2)).
Proof.
  intros A c1 b c2 H. induction c1 as [|y l IH]; cbn [app].
  - rewrite removelast_cons by exact H. left. reflexivity.
  - rewrite removelast_cons by (destruct l; discriminate). right. exact IH.
Qed.

Section AddStart.
Variables (v0 : version) (c1 : list version) (b : version) (c2 : list version).
Let chain := c1 ++ b :: c2.
Let a := last c1 v0.
Let fin := last chain v0.
Hypothesis Hok : chain_ok v0 chain.

Lemma in_removelast_chain : forall x, In x (v0 :: removelast c1 ++ [a]) -> In x (v0 :: removelast chain).
Proof.
  intros x [<-|Hin]; [left; reflexivity|]. apply in_app_or in Hin. destruct Hin as [Hin|[<-|[]]].
  - right. apply removelast_prefix.
    clear - Hin. induction c1 as [|y l IH]; [destruct Hin|]. destruct l; [destruct Hin|].
    destruct Hin as [->|Hin]; [left; reflexivity|right; apply IH, Hin].
  - unfold a. destruct c1 as [|y l] eqn:E; [left; reflexivity|]. right. rewrite <- E.
    apply removelast_prefix. rewrite E. clear. revert y. induction l as [|y2 l IH]; intros y; [left; reflexivity|].
    right. apply IH.
Qed.

(* the SOA that starts the ADDITION section of a -> b is dropped, and that section adds something:
   its first added record is taken as a deletion of a record that is not there *)
Theorem ixfr_dropped_addstart_rejected : forall r A' rest z0 ws,
  zminus (v_rest b) (v_rest a) = r :: A' -> zeq z0 (zone_of v0) ->
  chunking tIXFR (soa_rr fin :: diff_seqs v0 c1 ++ soa_rr a :: zminus (v_rest a) (v_rest b) ++ r :: rest) ws ->
  exists n, inbound_xfr z0 tIXFR (Some (v_serial v0)) false ws = (Error eDeleteNotExact z0, n).
Proof.
  intros r A' rest z0 ws HA Hz Hch.
  pose proof Hok as (_ & Hv0 & Hchn & Hser & Hlt).
  pose proof (chain_ok_soa v0 chain Hok) as Hsoa.
  apply Forall_app in Hchn. destruct Hchn as [Hc1 Hbc2]. inversion Hbc2 as [|? ? Hb _]; subst.
  assert (Hwa : version_wf a) by (apply version_wf_last; assumption).
  destruct Hwa as [Hta Hra]. destruct Hb as [Htb Hrb].
  destruct (diff_apply (v_rest a) (v_rest b) (zone_of a) Hra Hrb) as [z1 [Hd1 _]].
  { intros k Hk. rewrite look_zone_of. apply key_eqb_neq in Hk. rewrite Hk. reflexivity. }
  assert (Hin : In r (zminus (v_rest b) (v_rest a))) by (rewrite HA; left; reflexivity).
  assert (Habs : del1 (look z1 (rkey r)) (r_data r) = None).
  { eapply (added_absent (v_rest a) (v_rest b) (zone_of a) z1 r Hra Hrb); [|exact Hd1|exact Hin].
    intros k Hk. rewrite look_zone_of. apply key_eqb_neq in Hk. rewrite Hk. reflexivity. }
  assert (Hpl : plain r).
  { pose proof (zminus_plain (v_rest b) (v_rest a) Hrb) as P. rewrite Forall_forall in P. apply P, Hin. }
  apply (ixfr_bad_delete_rejected v0 c1 fin (zminus (v_rest a) (v_rest b)) r z1 rest z0 ws Hv0 Hc1 Hz).
  - intros v Hv. apply Hsoa, in_removelast_chain, Hv.
  - intros E. apply (Hser v0 (or_introl eq_refl)). symmetry. exact E.
  - exact Hlt.
  - apply zminus_plain, Hra.
  - exact Hpl.
  - exact Hd1.
  - exact Habs.
  - exact Hch.
Qed.

(* the SOA that starts the addition section of a -> b is sent TWICE (b is not the last version) and the
   section adds something: the second copy starts a deletion section that deletes records not there *)
Theorem ixfr_duplicated_addstart_rejected : forall r A' nx tail z0 ws,
  c2 <> [] -> ttl_ok (v_ttl nx) ->
  zminus (v_rest b) (v_rest a) = r :: A' -> zeq z0 (zone_of v0) ->
  chunking tIXFR (soa_rr fin :: diff_seqs v0 c1 ++ soa_rr a :: zminus (v_rest a) (v_rest b) ++
                  soa_rr b :: soa_rr b :: (r :: A') ++ soa_rr nx :: tail) ws ->
  exists n, inbound_xfr z0 tIXFR (Some (v_serial v0)) false ws = (Error eDeleteNotExact z0, n).
Proof.
  intros r A' nx tail z0 ws Hc2 Hnx HA Hz Hch.
  pose proof Hok as (_ & Hv0 & Hchn & Hser & Hlt).
  pose proof (chain_ok_soa v0 chain Hok) as Hsoa.
  apply Forall_app in Hchn. destruct Hchn as [Hc1 Hbc2]. inversion Hbc2 as [|? ? Hb _]; subst.
  assert (Hwa : version_wf a) by (apply version_wf_last; assumption).
  pose proof Hwa as [Hta Hra]. pose proof Hb as [Htb Hrb].
  assert (Hd : forall x, In x (v0 :: removelast c1) -> v_soa x <> v_soa fin).
  { intros x Hx. apply Hsoa, in_removelast_chain. destruct Hx as [<-|Hx]; [left; reflexivity|].
    right. apply in_or_app. left. exact Hx. }
  destruct (secs_of_valid0 c1 v0 fin z0 Hv0 Hc1 Hd) as [Hsk [z1 [Hap Hl]]].
  { intros k Hk. rewrite Hz, look_zone_of. apply key_eqb_neq in Hk. rewrite Hk. reflexivity. }
  fold a in Hl.
  destruct (diff_apply (v_rest a) (v_rest b) z1 Hra Hrb Hl) as [z2 [Hd2 _]].
  assert (Hin : In r (zminus (v_rest b) (v_rest a))) by (rewrite HA; left; reflexivity).
  pose proof (added_absent (v_rest a) (v_rest b) z1 z2 r Hra Hrb Hl Hd2 Hin) as Habs.
  assert (PA : Forall plain (r :: A')) by (rewrite <- HA; apply zminus_plain, Hrb).
  assert (Hpl : plain r) by (inversion PA; assumption).
  assert (Hend : end_serial (v_serial v0) (secs_of v0 c1) = v_serial a) by apply end_serial_of.
  assert (Hsa : v_soa a <> v_soa fin) by (apply Hsoa, in_removelast_chain; right; apply in_or_app; right; left; reflexivity).
  assert (Hsb : v_soa b <> v_soa fin).
  { apply Hsoa. right. unfold chain. apply in_removelast_mid, Hc2. }
  set (s1 := mkSect a (zminus (v_rest a) (v_rest b)) b []).
  set (s2 := mkSect b (r :: A') nx []).
  assert (Hsk2 : skel_ok (v_serial v0) fin (secs_of v0 c1 ++ [s1; s2])).
  { apply skel_ok_join; [exact Hsk|]. rewrite Hend. cbn [skel_ok s1 s2 c_old c_dels c_new c_adds].
    exact (conj eq_refl (conj Hsa (conj Htb (conj (plain_okrec _ (zminus_plain _ _ Hra)) (conj (Forall_nil _)
           (conj eq_refl (conj Hsb (conj Hnx (conj (plain_okrec _ PA) (conj (Forall_nil _) Logic.I)))))))))). }
  assert (Hap2 : apply_secs z0 (secs_of v0 c1 ++ [s1; s2]) = None).
  { rewrite (apply_secs_join _ _ _ _ Hap). cbn [apply_secs s1 s2 c_old c_dels c_new c_adds].
    rewrite (erase_plain_id _ (zminus_plain _ _ Hra)), Hd2, (erase_plain_id _ PA).
    change (erase []) with (@nil rr). cbn [adds dels]. rewrite look_zput.
    assert (Hk : key_eqb (rkey r) soakey = false).
    { apply key_eqb_neq. destruct Hpl as (_ & Ht & _). intros E. unfold rkey, soakey in E. inversion E. congruence. }
    rewrite Hk, Habs. reflexivity. }
  assert (Hstream : soa_rr fin :: diff_seqs v0 c1 ++ soa_rr a :: zminus (v_rest a) (v_rest b) ++
                      soa_rr b :: soa_rr b :: (r :: A') ++ soa_rr nx :: tail =
                    soa_rr fin :: secs_stream (secs_of v0 c1 ++ [s1; s2]) ++ tail).
  { rewrite secs_stream_app, secs_stream_of. cbn [secs_stream s1 s2 c_old c_dels c_new c_adds].
    repeat (first [rewrite <- app_assoc | progress cbn [app] | rewrite app_nil_r]). reflexivity. }
  rewrite Hstream in Hch.
  assert (Hq0 : quiet z0) by exact (zeq_zone_of_quiet _ _ Hv0 Hz).
  apply (ixfr_sections_rejected fin _ tail z0 (v_serial v0) ws Hsk2); try assumption.
  intros E. apply (Hser v0 (or_introl eq_refl)). symmetry. exact E.
Qed.
End AddStart.
