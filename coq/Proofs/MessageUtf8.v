(* The UTF-8 validator of the EDNS text options (MessageM.utf8_ok, the model of bytes.decode("utf8")) accepts
   exactly the RFC 3629 encodings of sequences of Unicode scalar values. *)
From Coq Require Import ZArith List Lia Bool.
From DV Require Import Base.Prelude Model.NameM Model.MessageM.
Import ListNotations.
Open Scope Z_scope.

(* Unicode scalar values: code points without the surrogates *)
Definition scalar (c : Z) : Prop := 0 <= c < 55296 \/ 57344 <= c < 1114112.

(* RFC 3629 section 3 *)
Definition utf8_enc (c : Z) : list Z :=
  if c <? 128 then [c]
  else if c <? 2048 then [192 + c / 64; 128 + c mod 64]
  else if c <? 65536 then [224 + c / 4096; 128 + (c / 64) mod 64; 128 + c mod 64]
  else [240 + c / 262144; 128 + (c / 4096) mod 64; 128 + (c / 64) mod 64; 128 + c mod 64].

Ltac dm := Z.to_euclidean_division_equations; lia.
Ltac tt := match goal with |- ?b = true => first [apply Z.leb_le | apply Z.ltb_lt | apply Z.eqb_eq]; dm end.
Ltac ff := match goal with |- ?b = false => first [apply Z.leb_gt | apply Z.ltb_ge | apply Z.eqb_neq]; dm end.

Lemma u8cont_enc x : u8cont (128 + x mod 64) = true.
Proof. unfold u8cont. apply andb_true_intro. split; tt. Qed.

Lemma utf8_enc_ok c rest : scalar c -> utf8_ok (utf8_enc c ++ rest) = utf8_ok rest.
Proof.
  intros SC. unfold utf8_enc.
  destruct (Z.ltb_spec c 128) as [H1|H1].
  { cbn [app utf8_ok]. replace (c <? 128) with true by (symmetry; tt). reflexivity. }
  destruct (Z.ltb_spec c 2048) as [H2|H2].
  { cbn [app utf8_ok].
    replace (192 + c / 64 <? 128) with false by (symmetry; ff).
    replace ((194 <=? 192 + c / 64) && (192 + c / 64 <=? 223)) with true
      by (symmetry; apply andb_true_intro; split; tt).
    rewrite u8cont_enc. reflexivity. }
  destruct (Z.ltb_spec c 65536) as [H3|H3].
  { cbn [app utf8_ok].
    replace (224 + c / 4096 <? 128) with false by (symmetry; ff).
    replace ((194 <=? 224 + c / 4096) && (224 + c / 4096 <=? 223)) with false
      by (symmetry; apply andb_false_intro2; ff).
    replace ((224 <=? 224 + c / 4096) && (224 + c / 4096 <=? 239)) with true
      by (symmetry; apply andb_true_intro; split; tt).
    rewrite !u8cont_enc. cbn [andb].
    destruct (Z.eqb_spec (224 + c / 4096) 224) as [E|E].
    { replace ((160 <=? 128 + (c / 64) mod 64) && (128 + (c / 64) mod 64 <=? 191)) with true
        by (symmetry; apply andb_true_intro; split; tt). reflexivity. }
    destruct (Z.eqb_spec (224 + c / 4096) 237) as [E2|E2].
    { replace ((128 <=? 128 + (c / 64) mod 64) && (128 + (c / 64) mod 64 <=? 159)) with true
        by (symmetry; apply andb_true_intro; split; [tt|apply Z.leb_le; unfold scalar in SC; dm]). reflexivity. }
    reflexivity. }
  cbn [app utf8_ok]. unfold scalar in SC.
  replace (240 + c / 262144 <? 128) with false by (symmetry; ff).
  replace ((194 <=? 240 + c / 262144) && (240 + c / 262144 <=? 223)) with false
    by (symmetry; apply andb_false_intro2; ff).
  replace ((224 <=? 240 + c / 262144) && (240 + c / 262144 <=? 239)) with false
    by (symmetry; apply andb_false_intro2; ff).
  replace ((240 <=? 240 + c / 262144) && (240 + c / 262144 <=? 244)) with true
    by (symmetry; apply andb_true_intro; split; tt).
  rewrite !u8cont_enc. cbn [andb].
  destruct (Z.eqb_spec (240 + c / 262144) 240) as [E|E].
  { replace ((144 <=? 128 + (c / 4096) mod 64) && (128 + (c / 4096) mod 64 <=? 191)) with true
      by (symmetry; apply andb_true_intro; split; tt). reflexivity. }
  destruct (Z.eqb_spec (240 + c / 262144) 244) as [E2|E2].
  { replace ((128 <=? 128 + (c / 4096) mod 64) && (128 + (c / 4096) mod 64 <=? 143)) with true
      by (symmetry; apply andb_true_intro; split; tt). reflexivity. }
  reflexivity.
Qed.

(* every encoding of scalar values is accepted *)
Lemma utf8_accepts_encodings_lemma cps : Forall scalar cps -> utf8_ok (flat_map utf8_enc cps) = true.
Proof.
  induction 1 as [|c cps SC _ IH]; [reflexivity|].
  cbn [flat_map]. rewrite utf8_enc_ok by exact SC. exact IH.
Qed.

Ltac bools H :=
  repeat match type of H with
         | _ && _ = true => let H' := fresh H in apply andb_prop in H; destruct H as [H H']; try bools H'
         end.
Ltac props :=
  repeat match goal with
         | H : (_ <=? _) = true |- _ => apply Z.leb_le in H
         | H : (_ <? _) = true |- _ => apply Z.ltb_lt in H
         | H : (_ <? _) = false |- _ => apply Z.ltb_ge in H
         | H : (_ =? _) = true |- _ => apply Z.eqb_eq in H
         | H : (_ =? _) = false |- _ => apply Z.eqb_neq in H
         | H : u8cont _ = true |- _ => unfold u8cont in H; apply andb_prop in H; destruct H
         | H : _ && _ = true |- _ => apply andb_prop in H; destruct H
         end.

Lemma enc2 b c1 : 194 <= b <= 223 -> 128 <= c1 <= 191 ->
  scalar ((b - 192) * 64 + (c1 - 128)) /\ utf8_enc ((b - 192) * 64 + (c1 - 128)) = [b; c1].
Proof.
  intros Hb H1. split; [left; lia|]. unfold utf8_enc.
  replace (_ <? 128) with false by (symmetry; apply Z.ltb_ge; lia).
  replace (_ <? 2048) with true by (symmetry; apply Z.ltb_lt; lia).
  f_equal; [dm|f_equal; dm].
Qed.

Lemma enc3 b c1 c2 : 224 <= b <= 239 -> 128 <= c1 <= 191 -> 128 <= c2 <= 191 ->
  (b = 224 -> 160 <= c1) -> (b = 237 -> c1 <= 159) ->
  scalar ((b - 224) * 4096 + (c1 - 128) * 64 + (c2 - 128)) /\
  utf8_enc ((b - 224) * 4096 + (c1 - 128) * 64 + (c2 - 128)) = [b; c1; c2].
Proof.
  intros Hb H1 H2 Ha Hd. split; [unfold scalar; lia|]. unfold utf8_enc.
  replace (_ <? 128) with false by (symmetry; apply Z.ltb_ge; lia).
  replace (_ <? 2048) with false by (symmetry; apply Z.ltb_ge; lia).
  replace (_ <? 65536) with true by (symmetry; apply Z.ltb_lt; lia).
  f_equal; [dm|f_equal; [dm|f_equal; dm]].
Qed.

Lemma enc4 b c1 c2 c3 : 240 <= b <= 244 -> 128 <= c1 <= 191 -> 128 <= c2 <= 191 -> 128 <= c3 <= 191 ->
  (b = 240 -> 144 <= c1) -> (b = 244 -> c1 <= 143) ->
  scalar ((b - 240) * 262144 + (c1 - 128) * 4096 + (c2 - 128) * 64 + (c3 - 128)) /\
  utf8_enc ((b - 240) * 262144 + (c1 - 128) * 4096 + (c2 - 128) * 64 + (c3 - 128)) = [b; c1; c2; c3].
Proof.
  intros Hb H1 H2 H3 Ha Hd. split; [unfold scalar; lia|]. unfold utf8_enc.
  replace (_ <? 128) with false by (symmetry; apply Z.ltb_ge; lia).
  replace (_ <? 2048) with false by (symmetry; apply Z.ltb_ge; lia).
  replace (_ <? 65536) with false by (symmetry; apply Z.ltb_ge; lia).
  f_equal; [dm|f_equal; [dm|f_equal; [dm|f_equal; dm]]].
Qed.

(* ... and nothing else: what is accepted is the encoding of a sequence of scalar values *)
Lemma utf8_ok_decodes_lemma : forall n l, (length l <= n)%nat -> Forall (fun b => 0 <= b) l -> utf8_ok l = true ->
  exists cps, Forall scalar cps /\ l = flat_map utf8_enc cps.
Proof.
  induction n as [|n IH]; intros l Hn NN H.
  { destruct l; [|cbn in Hn; lia]. exists []. split; [constructor|reflexivity]. }
  destruct l as [|b r]; [exists []; split; [constructor|reflexivity]|].
  inversion NN as [|? ? Hb0 NR]; subst. cbn [length] in Hn.
  cbn [utf8_ok] in H.
  destruct (b <? 128) eqn:E1.
  { destruct (IH r ltac:(lia) NR H) as (cps & SC & ->). exists (b :: cps). props.
    split; [constructor; [left; lia|exact SC]|]. cbn [flat_map].
    assert (EN : utf8_enc b = [b]).
    { unfold utf8_enc. replace (b <? 128) with true by (symmetry; apply Z.ltb_lt; lia). reflexivity. }
    rewrite EN. reflexivity. }
  destruct ((194 <=? b) && (b <=? 223)) eqn:E2.
  { destruct r as [|c1 r1]; [discriminate|]. inversion NR as [|? ? _ NR1]; subst. cbn [length] in Hn.
    apply andb_prop in H. destruct H as [Hc H].
    destruct (IH r1 ltac:(lia) NR1 H) as (cps & SC & ->). props.
    destruct (enc2 b c1 ltac:(lia) ltac:(lia)) as (S2 & EN).
    exists (((b - 192) * 64 + (c1 - 128)) :: cps). split; [constructor; assumption|]. cbn [flat_map]. rewrite EN. reflexivity. }
  destruct ((224 <=? b) && (b <=? 239)) eqn:E3.
  { destruct r as [|c1 [|c2 r2]]; try discriminate.
    inversion NR as [|? ? _ NR1]; subst. inversion NR1 as [|? ? _ NR2]; subst. cbn [length] in Hn.
    apply andb_prop in H. destruct H as [H Hr]. apply andb_prop in H. destruct H as [Hsel Hc2].
    destruct (IH r2 ltac:(lia) NR2 Hr) as (cps & SC & ->).
    assert (C : 128 <= c1 <= 191 /\ (b = 224 -> 160 <= c1) /\ (b = 237 -> c1 <= 159)).
    { destruct (b =? 224) eqn:A; [props; lia|]. destruct (b =? 237) eqn:B; props; lia. }
    props. destruct C as (C1 & C2 & C3).
    destruct (enc3 b c1 c2 ltac:(lia) C1 ltac:(lia) C2 C3) as (S3 & EN).
    exists (((b - 224) * 4096 + (c1 - 128) * 64 + (c2 - 128)) :: cps). split; [constructor; assumption|].
    cbn [flat_map]. rewrite EN. reflexivity. }
  destruct ((240 <=? b) && (b <=? 244)) eqn:E4; [|discriminate].
  destruct r as [|c1 [|c2 [|c3 r3]]]; try discriminate.
  inversion NR as [|? ? _ NR1]; subst. inversion NR1 as [|? ? _ NR2]; subst. inversion NR2 as [|? ? _ NR3]; subst.
  cbn [length] in Hn.
  apply andb_prop in H. destruct H as [H Hr]. apply andb_prop in H. destruct H as [H Hc3].
  apply andb_prop in H. destruct H as [Hsel Hc2].
  destruct (IH r3 ltac:(lia) NR3 Hr) as (cps & SC & ->).
  assert (C : 128 <= c1 <= 191 /\ (b = 240 -> 144 <= c1) /\ (b = 244 -> c1 <= 143)).
  { destruct (b =? 240) eqn:A; [props; lia|]. destruct (b =? 244) eqn:B; props; lia. }
  props. destruct C as (C1 & C2 & C3).
  destruct (enc4 b c1 c2 c3 ltac:(lia) C1 ltac:(lia) ltac:(lia) C2 C3) as (S4 & EN).
  exists (((b - 240) * 262144 + (c1 - 128) * 4096 + (c2 - 128) * 64 + (c3 - 128)) :: cps).
  split; [constructor; assumption|]. cbn [flat_map]. rewrite EN. reflexivity.
Qed.

Theorem utf8_ok_spec l : Forall (fun b => 0 <= b) l ->
  (utf8_ok l = true <-> exists cps, Forall scalar cps /\ l = flat_map utf8_enc cps).
Proof.
  intros NN. split.
  - exact (utf8_ok_decodes_lemma (length l) l (le_n _) NN).
  - intros (cps & SC & ->). exact (utf8_accepts_encodings_lemma cps SC).
Qed.
