(* C01: every operation that produces a name returns a library exception or a name within the
   DNS limits; never a Python-level exception. *)
From DV Require Import Base.Prelude Model.NameM.
From DV Require Import Proofs.NameOrder Proofs.NameValid Proofs.NameRel Proofs.NameSucc Proofs.NameText Proofs.NameWire.
Open Scope Z_scope.

Definition good (r : res name) : Prop :=
  match r with Ok n => Valid n | Lib _ => True | Internal _ => False end.

Lemma mk_name_good ls : good (mk_name ls).
Proof.
  destruct (mk_name ls) as [m|e|e] eqn:E; cbn; auto.
  - apply mk_name_ok in E. destruct E as [-> V]. exact V.
  - eapply mk_name_never_internal; eauto.
Qed.

Lemma concatenate_good a b : good (concatenate a b).
Proof. unfold concatenate. destruct (_ && _); [exact Logic.I|apply mk_name_good]. Qed.

Lemma relativize_good n o : Valid n -> good (relativize n o).
Proof. intros V. unfold relativize. destruct (is_subdomain n o); [apply mk_name_good|exact V]. Qed.

Lemma derelativize_good n o : Valid n -> good (derelativize n o).
Proof. intros V. unfold derelativize. destruct (negb _); [apply concatenate_good|exact V]. Qed.

Lemma choose_relativity_good n o rel : Valid n -> good (choose_relativity n o rel).
Proof.
  intros V. unfold choose_relativity. destruct o as [[|x o]|]; try exact V.
  destruct rel; [apply relativize_good|apply derelativize_good]; exact V.
Qed.

Lemma parent_good n : good (parent n).
Proof. unfold parent. destruct (_ || _); [exact Logic.I|apply mk_name_good]. Qed.

Lemma split_good n d :
  Valid n ->
  match split n d with Ok (p, s) => Valid p /\ Valid s | Lib _ => True | Internal _ => False end.
Proof.
  intros V. unfold split.
  destruct (d =? 0); [split; [exact V|apply Valid_nil]|].
  destruct (d =? zlen n); [split; [apply Valid_nil|exact V]|].
  destruct (_ || _); [exact Logic.I|].
  pose proof (mk_name_good (drop_last (Z.to_nat d) n)) as G1.
  pose proof (mk_name_good (take_last (Z.to_nat d) n)) as G2.
  destruct (mk_name (drop_last _ n)); cbn [bind good] in *; auto.
  destruct (mk_name (take_last _ n)); cbn [bind good] in *; auto.
Qed.

Lemma from_text_good text origin : good (from_text text origin).
Proof.
  destruct (from_text text origin) as [m|e|e] eqn:E; cbn; auto.
  - (* every Ok result of from_text comes out of mk_name *)
    unfold from_text in E. cbv zeta in E.
    set (t := match text with [64] => [] | _ => text end) in E.
    destruct (list_eq_dec Z.eq_dec t [46]) as [Et|Et].
    + rewrite Et in E. apply mk_name_ok in E. destruct E as [-> V]. exact V.
    + rewrite dot_match in E by assumption.
      unfold bind in E.
      destruct (match t with [] => Ok [] | _ :: _ => _ end) as [labels| |]; try discriminate.
      apply mk_name_ok in E. destruct E as [-> V]. exact V.
  - eapply from_text_no_internal; eauto.
Qed.

Lemma from_wire_good wire start :
  match from_wire wire start with Ok (n, _) => Valid n | Lib _ => True | Internal _ => False end.
Proof.
  destruct (from_wire wire start) as [[m c]|e|e] eqn:E; auto.
  - unfold from_wire in E. destruct (Nat.ltb _ _); [discriminate|].
    destruct (fw_go wire _ _ _ _) as [[labels p]| |]; try discriminate.
    unfold bind in E. destruct (mk_name labels) as [m'| |] eqn:M; try discriminate.
    inversion E; subst. apply mk_name_ok in M. destruct M as [-> V]. exact V.
  - eapply from_wire_total; eauto.
Qed.

Lemma pad_to_max_name_good n : good (pad_to_max_name n).
Proof. unfold pad_to_max_name. destruct (pad_labels 8 _ []). apply mk_name_good. Qed.

Lemma absolute_predecessor_valid n o p s : absolute_predecessor n o p = Ok s -> Valid s.
Proof.
  unfold absolute_predecessor.
  assert (forall m, pad_to_max_name m = Ok s -> Valid s) as Pad.
  { intros m H. pose proof (pad_to_max_name_good m) as G. rewrite H in G. exact G. }
  destruct (name_eqb n o); [apply Pad|].
  destruct n as [|lsl suffix]; [discriminate|].
  destruct (zlist_eqb lsl [0]).
  - intros H. pose proof (parent_good (lsl :: suffix)) as G. rewrite H in G. exact G.
  - destruct (rev lsl) as [|least rinit]; [discriminate|].
    unfold bind. destruct (mk_name _) as [nm| |] eqn:M; try discriminate.
    destruct p; [apply Pad|]. intros H; inversion H; subst. apply mk_name_ok in M. destruct M as [-> V]. exact V.
Qed.

Theorem successor_good n o p : Valid n -> Valid o -> good (successor n o p).
Proof.
  intros Vn Vo. destruct (successor n o p) as [s|e|e] eqn:E; cbn; auto.
  - destruct (is_absolute n) eqn:A.
    + destruct (successor_after_abs n o p s Vn Vo A E) as [V _]. exact V.
    + destruct (successor_after_rel n o p s Vn Vo A E) as [V _]. exact V.
  - exact (successor_no_internal n o p e Vn Vo E).
Qed.

Theorem predecessor_good n o p : Valid n -> Valid o -> good (predecessor n o p).
Proof.
  intros Vn Vo. destruct (predecessor n o p) as [s|e|e] eqn:E; cbn; auto.
  - unfold predecessor, handle_relativity in E.
    destruct (negb (is_absolute o)); [discriminate|].
    unfold bind in E.
    destruct (if negb (is_absolute n) then derelativize n o
              else if negb (is_subdomain n o) then Lib eNeedSubdomain else Ok n) as [n1| |]; try discriminate.
    destruct (absolute_predecessor n1 o p) as [r| |] eqn:P; try discriminate.
    apply absolute_predecessor_valid in P.
    destruct (negb (is_absolute n)).
    + pose proof (relativize_good r o P) as G. rewrite E in G. exact G.
    + inversion E; subst. exact P.
  - exact (predecessor_no_internal n o p e Vn Vo E).
Qed.

(* dns.wire.Parser.get_name(origin) *)
Lemma parser_get_name_good wire start origin :
  match parser_get_name wire start origin with
  | Ok (n, _) => Valid n | Lib _ => True | Internal _ => False end.
Proof.
  unfold parser_get_name. pose proof (from_wire_good wire start) as G.
  destruct (from_wire wire start) as [[n c]|e|e]; cbn [bind fst snd]; auto.
  destruct origin as [[|x o]|]; try exact G.
  pose proof (relativize_good n (x :: o) G) as R.
  destruct (relativize n (x :: o)); cbn [bind good] in *; auto.
Qed.
