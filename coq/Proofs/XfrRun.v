(* C13 - the message loop: relation between loop (with its "last RRset of the message" flag) and
   the flag-free iteration, invariants of step, and the driver over any division into messages. *)
From DV Require Import Base.Prelude Model.XfrM Proofs.XfrSets Proofs.XfrSpec Proofs.XfrZone Proofs.XfrDiff
  Proofs.XfrSafety Proofs.XfrBasic.

(* the loop body applied to RRsets none of which is the last of its message *)
Fixpoint loopn (s : st) (rs : list rrset) : st * option Z :=
  match rs with
  | [] => (s, None)
  | r :: rest =>
      match step Mid s r with
      | (s', Some e) => (s', Some e)
      | (s', None) => loopn s' rest
      end
  end.

Ltac brkH H :=
  repeat match type of H with
         | context [if ?b then _ else _] => destruct b eqn:?
         | context [match ?x with _ => _ end] => destruct x eqn:?
         end.

Lemma step_none_not_done : forall l s r s', step l s r = (s', None) -> done s = false.
Proof.
  intros l s r s' H. unfold step in H. destruct (done s); [discriminate|reflexivity].
Qed.

(* being last in the message only matters for a final SOA that passed every other check *)
Lemma step_false_true : forall s r s', step Mid s r = (s', None) -> step Last s r = (s', None).
Proof.
  intros s r s' H. unfold step in *.
  destruct (done s); [discriminate|].
  destruct (txn s) as [tz|]; [|discriminate].
  destruct ((s_type r =? tSOA) && (s_name r =? origin)); [|exact H].
  match type of H with (if ?c then _ else _) = _ => destruct c end; [|exact H].
  destruct (soa_serial r); [|discriminate].
  match type of H with (if ?c then _ else _) = _ => destruct c end; [discriminate|].
  match type of H with (if ?c then _ else _) = _ => destruct c end; [discriminate|].
  cbn [negb] in H. discriminate.
Qed.

Lemma loop_loopn : forall rs s s', loopn s rs = (s', None) -> loop s rs = (s', None).
Proof.
  induction rs as [|r rest IH]; intros s s' H; cbn [loopT loopn] in *; [exact H|].
  destruct (step Mid s r) as [s1 [e|]] eqn:Hs; [discriminate|].
  destruct rest as [|r2 rest].
  - cbn [loopn] in H. inversion H; subst. rewrite (step_false_true _ _ _ Hs). reflexivity.
  - rewrite Hs. apply IH, H.
Qed.

Lemma loop_snoc : forall rs r s,
  loop s (rs ++ [r]) =
  match loopn s rs with
  | (s1, Some e) => (s1, Some e)
  | (s1, None) => step Last s1 r
  end.
Proof.
  induction rs as [|a rs IH]; intros r s; cbn [app loopT loopn].
  - destruct (step Last s r) as [s' [e|]]; reflexivity.
  - assert (E : match rs ++ [r] with [] => Last | _ :: _ => Mid end = Mid) by (destruct rs; reflexivity).
    rewrite E. destruct (step Mid s a) as [s1 [e|]]; [reflexivity|apply IH].
Qed.

Lemma loopn_app : forall a b s,
  loopn s (a ++ b) =
  match loopn s a with
  | (s1, Some e) => (s1, Some e)
  | (s1, None) => loopn s1 b
  end.
Proof.
  induction a as [|x a IH]; intros b s; cbn [app loopn]; [reflexivity|].
  destruct (step Mid s x) as [s1 [e|]]; [reflexivity|apply IH].
Qed.

Lemma loopn_none_not_done : forall rs s s', loopn s rs = (s', None) -> done s' = false -> done s = false.
Proof.
  intros [|r rest] s s' H Hd; cbn [loopn] in H.
  - inversion H; subst; exact Hd.
  - destruct (step Mid s r) as [s1 [e|]] eqn:Hs; [discriminate|].
    eapply step_none_not_done; eassumption.
Qed.

(* fields that the loop never changes; the transaction stays open until done *)
Lemma step_inv : forall (l : flag) s r s' o, step l s r = (s', o) ->
  soa s' = soa s /\ is_udp s' = is_udp s /\ rdtype s' = rdtype s /\
  (done s' = false -> txn s <> None -> txn s' <> None).
Proof.
  intros l s r s' o H. unfold step, res_of in H.
  brkH H; inversion H; subst; cbn; repeat split; auto; try congruence; intros; discriminate.
Qed.

Lemma loop_inv : forall sg rs s s' o, loopT sg s rs = (s', o) ->
  soa s' = soa s /\ is_udp s' = is_udp s /\ rdtype s' = rdtype s /\
  (done s' = false -> o = None -> txn s <> None -> txn s' <> None) /\ req_tsig s' = req_tsig s.
Proof.
  intros sg. induction rs as [|r rest IH]; intros s s' o H; cbn [loopT] in H.
  - inversion H; subst. repeat split; auto.
  - destruct (step _ s r) as [s1 [e|]] eqn:Hs.
    + inversion H; subst. pose proof (step_req_tsig _ _ _ _ _ Hs) as R.
      apply step_inv in Hs. destruct Hs as (A & B & C & D).
      repeat split; auto; try congruence; intros; discriminate.
    + pose proof H as Hl. apply IH in H. pose proof (step_req_tsig _ _ _ _ _ Hs) as R. apply step_inv in Hs.
      destruct Hs as (A & B & C & D). destruct H as (A' & B' & C' & D' & R').
      repeat split; try congruence. intros Hd Ho Ht. apply D'; auto. apply D; auto.
      (* done s1 = false: otherwise the next step fails or s1 is final *)
      destruct (done s1) eqn:Hd1; [|reflexivity]. exfalso.
      destruct rest as [|r2 rest]; cbn [loopT] in Hl.
      * inversion Hl; subst. congruence.
      * destruct (step _ s1 r2) as [s2 [e|]] eqn:Hs2.
        -- inversion Hl; subst. discriminate.
        -- apply step_none_not_done in Hs2. congruence.
Qed.

(* ---- the driver over any division of the records into messages (one RRset per record) ---- *)
Definition running (s : st) : Prop :=
  done s = false /\ txn s <> None /\ soa s <> None /\ is_udp s = false /\ req_tsig s = false.

Definition cont (one_rr : bool) (r : st * option Z) (ws : list wmsg) : result * nat :=
  match r with
  | (s', Some e) => (Error e (pub s'), 0%nat)
  | (s', None) =>
      if done s' then (Done (pub s'), 1%nat)
      else let '(r, n) := drive one_rr s' ws in (r, S n)
  end.

Lemma drive_cons : forall one_rr s w ws, req_tsig s = false ->
  drive one_rr s (w :: ws) = cont one_rr (process_message s (from_wire one_rr w)) ws.
Proof.
  intros one_rr s w ws Hrq. cbn [drive]. unfold cont.
  destruct (process_message s (from_wire one_rr w)) as [s' [e|]] eqn:Hp; [reflexivity|].
  rewrite (process_req_tsig _ _ _ _ Hp), Hrq. reflexivity.
Qed.

Ltac solve_req :=
  first [ reflexivity
        | match goal with H : running ?s |- req_tsig ?s = false => apply H end
        | assumption ].

(* a later message of a running TCP transfer: process_message is just the loop *)
Lemma process_running : forall s m, running s ->
  m_rcode m = 0 -> (m_question m = [] \/ exists q, m_question m = (origin, rdtype s) :: q) ->
  process_message s m = loop s (m_answer m).
Proof.
  intros s m (Hd & Ht & Hs & Hu & Hrq) Hrc Hq. unfold process_message.
  destruct (txn s) as [tz|] eqn:Etx; [|congruence].
  rewrite Hrc. cbn [Z.eqb negb].
  assert (Q : (match m_question m with
               | (qn, qt) :: _ => if negb (qn =? origin) then Some eQName else if negb (qt =? rdtype s) then Some eQType else None
               | [] => None end) = None).
  { destruct Hq as [->|[q ->]]; [reflexivity|]. rewrite !Z.eqb_refl. reflexivity. }
  rewrite Q. destruct (soa s) eqn:Es; [|congruence].
  rewrite (loopT_nosig _ _ (m_tsig m) Hrq).
  destruct (loop s (m_answer m)) as [s' [e|]] eqn:Hl; [reflexivity|].
  apply loop_inv in Hl. destruct Hl as (_ & Hu' & _). rewrite Hu', Hu. reflexivity.
Qed.

Lemma app_snoc_split : forall {A} (a X c : list A) fin, a ++ X = c ++ [fin] ->
  (exists c', c = a ++ c' /\ X = c' ++ [fin]) \/ (a = c ++ [fin] /\ X = []).
Proof.
  intros A. induction a as [|x a IH]; intros X c fin H.
  - left. exists c. auto.
  - destruct c as [|y c]; cbn [app] in H.
    + inversion H; subst. destruct a; [|discriminate]. destruct X; [|discriminate]. right. auto.
    + inversion H; subst. destruct (IH _ _ _ H2) as [[c' [-> ->]]|[-> ->]].
      * left. exists c'. auto.
      * right. auto.
Qed.

Lemma running_after_loop : forall s rs s', running s -> loop s rs = (s', None) -> done s' = false -> running s'.
Proof.
  intros s rs s' (Hd & Ht & Hs & Hu & Hrq) Hl Hd'. apply loop_inv in Hl. destruct Hl as (A & B & C & D & R).
  repeat split; try congruence. apply D; auto.
Qed.

Lemma cont_records : forall ws a s c fin s1 s2,
  running s -> Forall (header_ok (rdtype s)) ws ->
  a ++ concat (map w_records ws) = c ++ [fin] ->
  loopn s (map single c) = (s1, None) -> done s1 = false ->
  step Last s1 (single fin) = (s2, None) -> done s2 = true ->
  exists n, cont true (loop s (map single a)) ws = (Done (pub s2), n).
Proof.
  induction ws as [|w ws IH]; intros a s c fin s1 s2 Hrun Hh Hcat Hl Hd1 Hfin Hd2.
  - cbn [map concat] in Hcat. rewrite app_nil_r in Hcat. subst a.
    rewrite map_app. cbn [map]. rewrite loop_snoc, Hl, Hfin. cbn [cont]. rewrite Hd2. eauto.
  - apply app_snoc_split in Hcat. destruct Hcat as [[c' [-> Hrest]]|[-> Hrest]].
    + rewrite map_app, loopn_app in Hl.
      destruct (loopn s (map single a)) as [sa [e|]] eqn:Ha; [discriminate|].
      pose proof (loopn_none_not_done _ _ _ Hl Hd1) as Hda.
      pose proof (loop_loopn _ _ _ Ha) as Hla. rewrite Hla. cbn [cont]. rewrite Hda.
      pose proof (running_after_loop _ _ _ Hrun Hla Hda) as Hra.
      assert (Hrt : rdtype sa = rdtype s) by (apply loop_inv in Hla; tauto).
      inversion Hh as [|? ? Hw Hws]; subst.
      rewrite drive_cons by solve_req. unfold from_wire. rewrite group_true.
      rewrite process_running; [|exact Hra|apply Hw|rewrite Hrt; apply Hw].
      cbn [m_answer]. cbn [map concat] in Hrest.
      destruct (IH (w_records w) sa c' fin s1 s2) as [n Hn]; auto.
      { rewrite Hrt. exact Hws. }
      rewrite Hn. eauto.
    + rewrite map_app. cbn [map]. rewrite loop_snoc, Hl, Hfin. cbn [cont]. rewrite Hd2. eauto.
Qed.

(* the stream stops before the transfer is complete: EOFError *)
Lemma cont_records_eof : forall ws a s s1,
  running s -> Forall (header_ok (rdtype s)) ws ->
  loopn s (map single (a ++ concat (map w_records ws))) = (s1, None) -> done s1 = false ->
  exists n z, cont true (loop s (map single a)) ws = (Error eEOF z, n).
Proof.
  induction ws as [|w ws IH]; intros a s s1 Hrun Hh Hl Hd1.
  - cbn [map concat] in Hl. rewrite app_nil_r in Hl.
    rewrite (loop_loopn _ _ _ Hl). cbn [cont drive]. rewrite Hd1. eauto.
  - cbn [map concat] in Hl. rewrite map_app, loopn_app in Hl.
    destruct (loopn s (map single a)) as [sa [e|]] eqn:Ha; [discriminate|].
    pose proof (loopn_none_not_done _ _ _ Hl Hd1) as Hda.
    pose proof (loop_loopn _ _ _ Ha) as Hla. rewrite Hla. cbn [cont]. rewrite Hda.
    pose proof (running_after_loop _ _ _ Hrun Hla Hda) as Hra.
    assert (Hrt : rdtype sa = rdtype s) by (apply loop_inv in Hla; tauto).
    inversion Hh as [|? ? Hw Hws]; subst.
    rewrite drive_cons by solve_req. unfold from_wire. rewrite group_true.
    rewrite process_running; [|exact Hra|apply Hw|rewrite Hrt; apply Hw].
    cbn [m_answer].
    destruct (IH (w_records w) sa s1) as [n [z Hn]]; auto.
    { rewrite Hrt. exact Hws. }
    rewrite Hn. eauto.
Qed.
