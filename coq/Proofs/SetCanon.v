(* Records with their fields (Model/SetCanonM.v): the structured ==/hash/_cmp agree with the
   flat records of Model/SetM.v; canonicalisation = encoding of the lower-cased names; and,
   through C02's round trip, == holds iff the field values are equal up to the ASCII case of
   the embedded names of the types that pass canonicalize on. *)
From DV Require Import Base.Prelude Model.NameM Model.SchemaM Model.SetM Model.SetCanonM.
From DV Require Import Proofs.NameOrder Proofs.SchemaThm Proofs.SetRdata.
Open Scope Z_scope.

(* ---------- structured records vs the flat abstraction ---------- *)

Lemma s_abs_inv r x :
  s_abs r = Ok x ->
  exists d rel, s_digest_rel r = Ok (d, rel) /\ x = mkRd (sid r) (scls r) (styp r) (scov r) d rel.
Proof.
  unfold s_abs. destruct (s_digest_rel r) as [[d rel]| |]; cbn; try discriminate.
  intros E; inversion E. eauto.
Qed.

Theorem s_eq_abs a b x y : s_abs a = Ok x -> s_abs b = Ok y -> s_eq a b = Ok (rd_eqb x y).
Proof.
  intros Ha Hb. apply s_abs_inv in Ha as (da & ra & Ea & ->). apply s_abs_inv in Hb as (db & rb & Eb & ->).
  unfold s_eq, rd_eqb. cbn [rcls rtyp rrel rdig].
  destruct (negb (scls a =? scls b) || negb (styp a =? styp b)); [reflexivity|].
  rewrite Ea, Eb. cbn. destruct (negb (Bool.eqb ra rb)); reflexivity.
Qed.

Theorem s_cmp_abs a b x y : s_abs a = Ok x -> s_abs b = Ok y -> s_cmp a b = Ok (rd_cmp x y).
Proof.
  intros Ha Hb. apply s_abs_inv in Ha as (da & ra & Ea & ->). apply s_abs_inv in Hb as (db & rb & Eb & ->).
  unfold s_cmp, rd_cmp. cbn [rrel rdig]. rewrite Ea, Eb. cbn.
  destruct (negb (Bool.eqb ra rb)); reflexivity.
Qed.

(* ---------- an encoding that needs no origin is the same under every origin ---------- *)

Lemma to_wire_any_origin n c w o : NameM.to_wire n None c = Ok w -> NameM.to_wire n (Some o) c = Ok w.
Proof. unfold NameM.to_wire. destruct (is_absolute n); [auto|discriminate]. Qed.

Lemma cenc_s_any_origin low f v w o : cenc_s None low f v = Ok w -> cenc_s (Some o) low f v = Ok w.
Proof.
  destruct f, v; cbn; auto. apply to_wire_any_origin.
Qed.

Lemma cenc_row_any_origin low o : forall fs vs w,
  cenc_row None low fs vs = Ok w -> cenc_row (Some o) low fs vs = Ok w.
Proof.
  induction fs as [|f fr IH]; intros [|v vr] w; cbn; auto; try discriminate.
  destruct (cenc_s None low f v) as [a| |] eqn:Ea; cbn; try discriminate.
  destruct (cenc_row None low fr vr) as [b| |] eqn:Eb; cbn; try discriminate.
  intros E. rewrite (cenc_s_any_origin _ _ _ _ o Ea), (IH _ _ Eb). exact E.
Qed.

Lemma cenc_rows_any_origin low o row : forall rows w,
  cenc_rows None low row rows = Ok w -> cenc_rows (Some o) low row rows = Ok w.
Proof.
  induction rows as [|r rr IH]; intros w; cbn; auto.
  destruct (cenc_row None low row r) as [a| |] eqn:Ea; cbn; try discriminate.
  destruct (cenc_rows None low row rr) as [b| |] eqn:Eb; cbn; try discriminate.
  intros E. rewrite (cenc_row_any_origin _ o _ _ _ Ea), (IH _ eq_refl). exact E.
Qed.

Lemma enc_s_nonname_origin o o' f v :
  (forall rel, f <> SchemaM.FName rel) -> enc_s o f v = enc_s o' f v.
Proof. destruct f, v; cbn; intros H; try reflexivity. exfalso. eapply H. reflexivity. Qed.

Lemma cenc_f_any_origin low f v w o : cenc_f None low f v = Ok w -> cenc_f (Some o) low f v = Ok w.
Proof.
  destruct f as [s| | | |m a row]; destruct v as [x|rows]; cbn; auto;
    try apply cenc_s_any_origin; try apply cenc_rows_any_origin;
    try (destruct x as [z|b|n]; cbn; auto; destruct b; cbn; auto).
Qed.

Lemma cenc_fields_any_origin low o : forall fs vs w,
  cenc_fields None low fs vs = Ok w -> cenc_fields (Some o) low fs vs = Ok w.
Proof.
  induction fs as [|f fr IH]; intros [|v vr] w; cbn; auto; try discriminate.
  destruct (cenc_f None low f v) as [a| |] eqn:Ea; cbn; try discriminate.
  destruct (cenc_fields None low fr vr) as [b| |] eqn:Eb; cbn; try discriminate.
  intros E. rewrite (cenc_f_any_origin _ _ _ _ o Ea), (IH _ _ Eb). exact E.
Qed.

(* the hashed value is the digest that == compares *)
Theorem s_hashkey_abs r x : s_abs r = Ok x -> s_hashkey r = Ok (rd_hashkey x).
Proof.
  intros H. apply s_abs_inv in H as (d & rel & E & ->). unfold s_hashkey, rd_hashkey. cbn [rdig].
  unfold s_digest_rel in E. destruct (s_digest r None) as [d0|e|e] eqn:E0.
  - inversion E; subst. apply cenc_fields_any_origin, E0.
  - destruct (e =? eNeedAbsolute); [|discriminate].
    destruct (s_digest r (Some root)) as [d1| |]; cbn in E; try discriminate.
    inversion E; subst. reflexivity.
  - discriminate.
Qed.

Theorem s_hash_congr a b x y :
  s_abs a = Ok x -> s_abs b = Ok y -> s_eq a b = Ok true -> s_hashkey a = s_hashkey b.
Proof.
  intros Ha Hb He. rewrite (s_eq_abs a b x y Ha Hb) in He. inversion He as [H].
  rewrite (s_hashkey_abs a x Ha), (s_hashkey_abs b y Hb). f_equal. apply rd_hash_congr, H.
Qed.

(* ---------- canonicalisation is the encoding of the lower-cased names ---------- *)

Definition lows (low : bool) (v : sval) : sval :=
  match v with VN n => if low then VN (map lower_l n) else v | _ => v end.
Definition lowv (low : bool) (v : val) : val :=
  match v with VS x => VS (lows low x) | VL rows => VL (map (map (lows low)) rows) end.
Definition lowvals (low : bool) (vs : list val) : list val := map (lowv low) vs.

(* origins whose own labels are lower case already: None and the root in particular *)
Definition origin_lc (o : option name) : Prop :=
  match o with None => True | Some x => map lower_l x = x end.

Lemma zlen_lower l : zlen (lower_l l) = zlen l.
Proof. unfold zlen, lower_l. now rewrite map_length. Qed.

Lemma wire_labels_lower n : wire_labels true n = wire_labels false (map lower_l n).
Proof.
  unfold wire_labels. induction n as [|l n IH]; [reflexivity|]. cbn [map flat_map].
  rewrite IH, zlen_lower. reflexivity.
Qed.

Lemma wire_length_lower n : wire_length (map lower_l n) = wire_length n.
Proof.
  unfold wire_length. induction n as [|l n IH]; [reflexivity|]. cbn [map fold_right].
  rewrite IH, zlen_lower. reflexivity.
Qed.

Lemma to_wire_lower n o :
  origin_lc o -> NameM.to_wire n o true = NameM.to_wire (map lower_l n) o false.
Proof.
  intros Ho. unfold NameM.to_wire. rewrite is_absolute_lower, wire_length_lower, <- wire_labels_lower.
  destruct (is_absolute n); [reflexivity|].
  destruct o as [x|]; [|reflexivity]. cbn in Ho.
  destruct (is_absolute x); [|reflexivity].
  destruct (wire_length n + wire_length x >? 255); [reflexivity|].
  rewrite (wire_labels_lower x), Ho. reflexivity.
Qed.

Lemma cenc_s_low o low f v : origin_lc o -> cenc_s o low f v = enc_s o f (lows low v).
Proof.
  intros Ho. destruct f, v; cbn; try reflexivity; destruct low; cbn; try reflexivity.
  apply to_wire_lower, Ho.
Qed.

Lemma cenc_row_low o low : origin_lc o -> forall fs vs,
  cenc_row o low fs vs = enc_row o fs (map (lows low) vs).
Proof.
  intros Ho. induction fs as [|f fr IH]; intros [|v vr]; cbn; try reflexivity.
  rewrite (cenc_s_low o low f v Ho), IH. reflexivity.
Qed.

Lemma cenc_rows_low o low row : origin_lc o -> forall rows,
  cenc_rows o low row rows = enc_rows o row (map (map (lows low)) rows).
Proof.
  intros Ho. induction rows as [|r rr IH]; cbn; [reflexivity|].
  rewrite (cenc_row_low o low Ho), IH. reflexivity.
Qed.

Lemma cenc_f_low o low f v : origin_lc o -> cenc_f o low f v = enc_f o f (lowv low v).
Proof.
  intros Ho. destruct f as [s| | | |m a row]; destruct v as [x|rows]; cbn; try reflexivity.
  - apply cenc_s_low, Ho.
  - destruct x; cbn; try reflexivity. destruct low; reflexivity.
  - destruct x; cbn; try reflexivity. destruct low; reflexivity.
  - destruct x; cbn; try reflexivity. destruct low; reflexivity.
  - apply cenc_rows_low, Ho.
Qed.

(* Rdata.to_wire(origin, canonicalize=True) = Rdata.to_wire(origin) of the record with its names
   lower-cased (for the types that pass the flag on; the very same octets otherwise) *)
Theorem cenc_fields_low o low : origin_lc o -> forall fs vs,
  cenc_fields o low fs vs = enc_fields o fs (lowvals low vs).
Proof.
  intros Ho. induction fs as [|f fr IH]; intros [|v vr]; cbn; try reflexivity.
  rewrite (cenc_f_low o low f v Ho), IH. reflexivity.
Qed.

Corollary cenc_fields_plain o fs vs : origin_lc o -> cenc_fields o false fs vs = enc_fields o fs vs.
Proof.
  intros Ho. rewrite (cenc_fields_low o false Ho). f_equal. unfold lowvals.
  rewrite <- (map_id vs) at 2. apply map_ext. intros [x|rows]; cbn.
  - destruct x; reflexivity.
  - f_equal. rewrite <- (map_id rows) at 2. apply map_ext. intros r.
    rewrite <- (map_id r) at 2. apply map_ext. intros x. destruct x; reflexivity.
Qed.

(* ---------- validity does not look at the case of names ---------- *)

Lemma vl_loop_lower : forall ls total i j, vl_loop (map lower_l ls) total i j = vl_loop ls total i j.
Proof.
  induction ls as [|l r IH]; intros total i j; cbn; [reflexivity|].
  rewrite zlen_lower. destruct (zlen l >? 63); [reflexivity|]. apply IH.
Qed.

Lemma validate_labels_lower n : validate_labels (map lower_l n) = validate_labels n.
Proof. unfold validate_labels. rewrite vl_loop_lower, map_length. reflexivity. Qed.

Lemma valid_s_low low f v : valid_s f (lows low v) = valid_s f v.
Proof.
  destruct f, v; cbn; try reflexivity; destruct low; cbn; try reflexivity.
  rewrite validate_labels_lower. reflexivity.
Qed.

Lemma valid_row_low low : forall fs vs, valid_row fs (map (lows low) vs) = valid_row fs vs.
Proof.
  induction fs as [|f fr IH]; intros [|v vr]; cbn; try reflexivity.
  rewrite valid_s_low, IH. reflexivity.
Qed.

Lemma ascending_low low : forall rows last,
  ascending last (map (map (lows low)) rows) = ascending last rows.
Proof.
  induction rows as [|r rr IH]; intros last; cbn; [reflexivity|].
  destruct r as [|x r']; cbn; [reflexivity|]. destruct x; cbn; try reflexivity.
  - rewrite IH. reflexivity.
  - destruct low; reflexivity.
Qed.

Lemma valid_f_low low f v : valid_f f (lowv low v) = valid_f f v.
Proof.
  destruct f as [s| | | |m a row]; destruct v as [x|rows]; cbn; try reflexivity.
  - apply valid_s_low.
  - destruct x; cbn; try reflexivity. destruct low; reflexivity.
  - destruct x; cbn; try reflexivity. destruct low; reflexivity.
  - destruct x; cbn; try reflexivity. destruct low; reflexivity.
  - rewrite map_length, ascending_low. f_equal. f_equal.
    induction rows as [|r rr IH]; cbn; [reflexivity|]. rewrite valid_row_low, IH. reflexivity.
Qed.

Lemma valid_fields_low low : forall fs vs, valid_fields fs (lowvals low vs) = valid_fields fs vs.
Proof.
  induction fs as [|f fr IH]; intros [|v vr]; cbn; try reflexivity.
  rewrite valid_f_low. unfold lowvals in IH. rewrite IH. reflexivity.
Qed.

(* ---------- the wire form determines the record (C02's round trip) ---------- *)

Lemma enc_fields_inj fs v1 v2 b :
  schema_wf fs = true -> valid_fields fs v1 = true -> valid_fields fs v2 = true ->
  enc_fields None fs v1 = Ok b -> enc_fields None fs v2 = Ok b -> v1 = v2.
Proof.
  intros Hwf H1 H2 E1 E2.
  assert (R1 : encode_rdata None fs CkNone v1 = Ok b).
  { unfold encode_rdata, validate. rewrite H1. cbn. exact E1. }
  assert (R2 : encode_rdata None fs CkNone v2 = Ok b).
  { unfold encode_rdata, validate. rewrite H2. cbn. exact E2. }
  pose proof (schema_roundtrip_none fs CkNone v1 b [] [] Hwf R1) as D1.
  pose proof (schema_roundtrip_none fs CkNone v2 b [] [] Hwf R2) as D2.
  rewrite D1 in D2. inversion D2. reflexivity.
Qed.

(* ---------- equality up to the case of names ---------- *)

Definition name_ci (n m : name) : Prop := map lower_l n = map lower_l m.

Definition sval_ci (low : bool) (a b : sval) : Prop :=
  match a, b with
  | VI x, VI y => x = y
  | VB x, VB y => x = y
  | VN n, VN m => if low then name_ci n m else n = m
  | _, _ => False
  end.

Definition val_ci (low : bool) (a b : val) : Prop :=
  match a, b with
  | VS x, VS y => sval_ci low x y
  | VL r1, VL r2 => Forall2 (Forall2 (sval_ci low)) r1 r2
  | _, _ => False
  end.

Definition vals_ci (low : bool) (va vb : list val) : Prop := Forall2 (val_ci low) va vb.

Lemma lows_eq_iff low a b : lows low a = lows low b <-> sval_ci low a b.
Proof.
  destruct a as [x|x|n], b as [y|y|m]; destruct low; cbn; unfold name_ci; split; intros H;
    try discriminate; try contradiction; try (inversion H; reflexivity); try congruence.
Qed.

Lemma map_eq_Forall2 {A B} (f : A -> B) (R : A -> A -> Prop) :
  (forall a b, f a = f b <-> R a b) -> forall l1 l2, map f l1 = map f l2 <-> Forall2 R l1 l2.
Proof.
  intros H. induction l1 as [|a l1 IH]; intros [|b l2]; cbn.
  - split; constructor.
  - split; [discriminate|inversion 1].
  - split; [discriminate|inversion 1].
  - split.
    + intros E. inversion E. constructor; [apply H; assumption|apply IH; assumption].
    + intros E. inversion E; subst. f_equal; [apply H; assumption|apply IH; assumption].
Qed.

Lemma lowv_eq_iff low a b : lowv low a = lowv low b <-> val_ci low a b.
Proof.
  destruct a as [x|r1], b as [y|r2]; cbn; try (split; [discriminate|contradiction]).
  - rewrite <- lows_eq_iff. split; [intros E; inversion E; reflexivity|congruence].
  - rewrite <- (map_eq_Forall2 (map (lows low)) (Forall2 (sval_ci low))).
    + split; [intros E; inversion E; reflexivity|congruence].
    + intros l1 l2. apply map_eq_Forall2. apply lows_eq_iff.
Qed.

Lemma lowvals_eq_iff low va vb : lowvals low va = lowvals low vb <-> vals_ci low va vb.
Proof. apply map_eq_Forall2. apply lowv_eq_iff. Qed.

(* ---------- the theorem: == on the real encodings ---------- *)

(* Two records of one class and type (hence one field list and one canonicalize flag) whose
   names are all absolute are == exactly when their field values agree: integers and octet
   strings identical, embedded names label by label up to ASCII case if the type passes
   canonicalize on to its names, identical otherwise. *)
Theorem s_eq_iff_fields a b da db :
  schema_wf (sfs a) = true ->
  scls a = scls b -> styp a = styp b -> sfs b = sfs a -> slow b = slow a ->
  valid_fields (sfs a) (svs a) = true -> valid_fields (sfs a) (svs b) = true ->
  s_digest a None = Ok da -> s_digest b None = Ok db ->
  (s_eq a b = Ok true <-> vals_ci (slow a) (svs a) (svs b)).
Proof.
  intros Hwf Hc Ht Hfs Hlow Va Vb Da Db.
  assert (Ea : s_digest_rel a = Ok (da, false)) by (unfold s_digest_rel; rewrite Da; reflexivity).
  assert (Eb : s_digest_rel b = Ok (db, false)) by (unfold s_digest_rel; rewrite Db; reflexivity).
  unfold s_eq. rewrite Hc, Ht, !Z.eqb_refl, Ea, Eb. cbn.
  unfold s_digest in Da, Db. rewrite Hfs, Hlow in Db.
  rewrite (cenc_fields_low None (slow a) Logic.I) in Da, Db.
  rewrite <- lowvals_eq_iff. split.
  - intros E. inversion E as [E']. apply zlist_eqb_eq in E'. subst db.
    eapply enc_fields_inj; [exact Hwf| | |exact Da|exact Db]; rewrite valid_fields_low; assumption.
  - intros E. rewrite E in Da. rewrite Da in Db. inversion Db. rewrite zlist_eqb_refl. reflexivity.
Qed.

(* ---------- records with relative names ---------- *)
(* __eq__ completes relative names with the root and remembers that it had to: a record with a
   relative name never equals one without, and two such records are compared on the completed
   names. *)

Definition absn (n : name) : name := if is_absolute n then n else n ++ root.
Definition abss (v : sval) : sval := match v with VN n => VN (absn n) | _ => v end.
Definition absv (v : val) : val :=
  match v with VS x => VS (abss x) | VL rows => VL (map (map abss) rows) end.
Definition absvals (vs : list val) : list val := map absv vs.

Lemma is_absolute_app_root n : is_absolute (n ++ root) = true.
Proof.
  induction n as [|x r IH]; [reflexivity|].
  change ((x :: r) ++ root) with (x :: (r ++ root)).
  destruct (r ++ root) as [|y t] eqn:E.
  - destruct r; discriminate.
  - cbn [is_absolute]. exact IH.
Qed.

Lemma wire_labels_app c a b : wire_labels c (a ++ b) = wire_labels c a ++ wire_labels c b.
Proof. unfold wire_labels. apply flat_map_app. Qed.

Lemma to_wire_root n c w :
  NameM.to_wire n (Some root) c = Ok w -> NameM.to_wire (absn n) None c = Ok w.
Proof.
  unfold NameM.to_wire, absn. destruct (is_absolute n) eqn:E.
  - rewrite E. auto.
  - rewrite is_absolute_app_root. cbn [is_absolute root].
    destruct (wire_length n + wire_length root >? 255); [discriminate|].
    rewrite wire_labels_app. auto.
Qed.

Lemma cenc_s_root low f v w : cenc_s (Some root) low f v = Ok w -> cenc_s None low f (abss v) = Ok w.
Proof. destruct f, v; cbn; auto. apply to_wire_root. Qed.

Lemma cenc_row_root low : forall fs vs w,
  cenc_row (Some root) low fs vs = Ok w -> cenc_row None low fs (map abss vs) = Ok w.
Proof.
  induction fs as [|f fr IH]; intros [|v vr] w; cbn; auto; try discriminate.
  destruct (cenc_s (Some root) low f v) as [a| |] eqn:Ea; cbn; try discriminate.
  destruct (cenc_row (Some root) low fr vr) as [b| |] eqn:Eb; cbn; try discriminate.
  intros E. rewrite (cenc_s_root _ _ _ _ Ea), (IH _ _ Eb). exact E.
Qed.

Lemma cenc_rows_root low row : forall rows w,
  cenc_rows (Some root) low row rows = Ok w -> cenc_rows None low row (map (map abss) rows) = Ok w.
Proof.
  induction rows as [|r rr IH]; intros w; cbn; auto.
  destruct (cenc_row (Some root) low row r) as [a| |] eqn:Ea; cbn; try discriminate.
  destruct (cenc_rows (Some root) low row rr) as [b| |] eqn:Eb; cbn; try discriminate.
  intros E. rewrite (cenc_row_root _ _ _ _ Ea), (IH _ eq_refl). exact E.
Qed.

Lemma cenc_f_root low f v w : cenc_f (Some root) low f v = Ok w -> cenc_f None low f (absv v) = Ok w.
Proof.
  destruct f as [s| | | |m a row]; destruct v as [x|rows]; cbn [cenc_f absv]; auto;
    try apply cenc_s_root; try apply cenc_rows_root;
    destruct x as [z|b|nn]; cbn; auto; try discriminate; destruct b; cbn; auto.
Qed.

Lemma cenc_fields_root low : forall fs vs w,
  cenc_fields (Some root) low fs vs = Ok w -> cenc_fields None low fs (absvals vs) = Ok w.
Proof.
  induction fs as [|f fr IH]; intros [|v vr] w; cbn; auto; try discriminate.
  destruct (cenc_f (Some root) low f v) as [a| |] eqn:Ea; cbn; try discriminate.
  destruct (cenc_fields (Some root) low fr vr) as [b| |] eqn:Eb; cbn; try discriminate.
  intros E. rewrite (cenc_f_root _ _ _ _ Ea). unfold absvals in IH. rewrite (IH _ _ Eb). exact E.
Qed.

Theorem relative_never_equals_absolute a b da db :
  s_digest_rel a = Ok (da, true) -> s_digest_rel b = Ok (db, false) ->
  s_eq a b = Ok false /\ s_eq b a = Ok false.
Proof.
  intros Ea Eb. unfold s_eq. rewrite Ea, Eb. cbn.
  split; [destruct (negb (scls a =? scls b) || negb (styp a =? styp b))
         |destruct (negb (scls b =? scls a) || negb (styp b =? styp a))]; reflexivity.
Qed.

(* both records have a relative name: == iff the values agree after completing the relative
   names with the root (case-insensitively for the types that pass canonicalize on) *)
Theorem s_eq_iff_fields_relative a b da db :
  schema_wf (sfs a) = true ->
  scls a = scls b -> styp a = styp b -> sfs b = sfs a -> slow b = slow a ->
  valid_fields (sfs a) (absvals (svs a)) = true -> valid_fields (sfs a) (absvals (svs b)) = true ->
  s_digest_rel a = Ok (da, true) -> s_digest_rel b = Ok (db, true) ->
  (s_eq a b = Ok true <-> vals_ci (slow a) (absvals (svs a)) (absvals (svs b))).
Proof.
  intros Hwf Hc Ht Hfs Hlow Va Vb Ea Eb.
  assert (Da : s_digest a (Some root) = Ok da).
  { unfold s_digest_rel in Ea. destruct (s_digest a None) as [d|e|e]; try discriminate.
    destruct (e =? eNeedAbsolute); [|discriminate].
    destruct (s_digest a (Some root)); cbn in Ea; inversion Ea; reflexivity. }
  assert (Db : s_digest b (Some root) = Ok db).
  { unfold s_digest_rel in Eb. destruct (s_digest b None) as [d|e|e]; try discriminate.
    destruct (e =? eNeedAbsolute); [|discriminate].
    destruct (s_digest b (Some root)); cbn in Eb; inversion Eb; reflexivity. }
  unfold s_eq. rewrite Hc, Ht, !Z.eqb_refl, Ea, Eb. cbn.
  unfold s_digest in Da, Db. rewrite Hfs, Hlow in Db.
  apply cenc_fields_root in Da, Db.
  rewrite (cenc_fields_low None (slow a) Logic.I) in Da, Db.
  rewrite <- lowvals_eq_iff. split.
  - intros E. inversion E as [E']. apply zlist_eqb_eq in E'. subst db.
    eapply enc_fields_inj; [exact Hwf| | |exact Da|exact Db]; rewrite valid_fields_low; assumption.
  - intros E. rewrite E in Da. rewrite Da in Db. inversion Db. rewrite zlist_eqb_refl. reflexivity.
Qed.

(* ---------- down to the sets: spellings of one record collapse ---------- *)

Theorem case_variants_collapse a b da db x y :
  schema_wf (sfs a) = true ->
  scls a = scls b -> styp a = styp b -> sfs b = sfs a -> slow b = slow a ->
  valid_fields (sfs a) (svs a) = true -> valid_fields (sfs a) (svs b) = true ->
  s_digest a None = Ok da -> s_digest b None = Ok db ->
  vals_ci (slow a) (svs a) (svs b) ->
  s_abs a = Ok x -> s_abs b = Ok y ->
  rd_eqb x y = true /\ sadd rd_eqb y [x] = [x] /\ rd_hashkey x = rd_hashkey y /\ rd_cmp x y = 0.
Proof.
  intros Hwf Hc Ht Hfs Hlow Va Vb Da Db Hci Hx Hy.
  pose proof (proj2 (s_eq_iff_fields a b da db Hwf Hc Ht Hfs Hlow Va Vb Da Db) Hci) as He.
  rewrite (s_eq_abs a b x y Hx Hy) in He. assert (E : rd_eqb x y = true) by congruence. clear He.
  split; [exact E|]. split.
  - unfold sadd, mem. cbn. rewrite E. reflexivity.
  - split; [apply rd_hash_congr, E|].
    apply rd_cmp_zero_iff; [| |exact E]; apply rd_eqb_iff in E; tauto.
Qed.
