(* OPT / EDNS options: the normalisation performed by the option classes is idempotent, hence
   whatever the reader accepts is in normal form, encodes, and its encoding is a fixed point of
   decode-then-encode.  (False before fix e554dd4: EDE text lost only ONE trailing NUL.) *)
From DV Require Import Base.Prelude Model.NameM Model.SchemaM Model.SchemaHand
  Proofs.SchemaName Proofs.SchemaCodec Proofs.SchemaThm Proofs.SchemaFix Proofs.SchemaReenc Proofs.SchemaHandThm.
Open Scope Z_scope.
Ltac Zify.zify_post_hook ::= Z.to_euclidean_division_equations.

Lemma zlist_eqb_refl : forall a, zlist_eqb a a = true.
Proof. induction a as [|x a IH]; [reflexivity|]. cbn. rewrite Z.eqb_refl, IH. reflexivity. Qed.

(* ---------- strip0 is idempotent ---------- *)
Lemma drop_zeros_idem : forall r, drop_zeros (drop_zeros r) = drop_zeros r.
Proof.
  induction r as [|x r IH]; [reflexivity|].
  destruct (Z.eq_dec x 0) as [->|Hx]; [exact IH|].
  assert (E : drop_zeros (x :: r) = x :: r) by (destruct x; try reflexivity; contradiction).
  rewrite E. exact E.
Qed.

Lemma strip0_idem : forall b, strip0 (strip0 b) = strip0 b.
Proof. intros b. unfold strip0. rewrite rev_involutive, drop_zeros_idem. reflexivity. Qed.

(* ---------- ECS masking is idempotent and keeps the length ---------- *)
Lemma mask_bits_idem : forall x n, 0 <= n <= 8 -> mask_bits (mask_bits x n) n = mask_bits x n.
Proof.
  intros x n Hn. unfold mask_bits.
  assert (Hp : 0 < 2 ^ (8 - n)) by (apply Z.pow_pos_nonneg; lia).
  rewrite Z.div_mul by lia. reflexivity.
Qed.

Lemma mask_last_length : forall a k, length (mask_last a k) = length a.
Proof.
  intros a k. unfold mask_last. destruct (k =? 0); [reflexivity|].
  destruct (rev a) as [|l r] eqn:E.
  - apply (f_equal (@length Z)) in E. rewrite rev_length in E. cbn in E. rewrite E. reflexivity.
  - cbn [rev]. rewrite app_length, rev_length. cbn [length].
    apply (f_equal (@length Z)) in E. rewrite rev_length in E. cbn [length] in E. lia.
Qed.

Lemma mask_last_idem : forall a k, 0 <= k <= 8 -> mask_last (mask_last a k) k = mask_last a k.
Proof.
  intros a k Hk. unfold mask_last. destruct (k =? 0) eqn:Ek; [reflexivity|].
  destruct (rev a) as [|l r] eqn:E.
  - reflexivity.
  - rewrite rev_involutive. rewrite mask_bits_idem by lia. reflexivity.
Qed.

(* ---------- the normal form is a fixed point of the normalisation ---------- *)
Lemma opt_norm_idem : forall ot d p, opt_norm ot d = Some p -> opt_norm ot p = Some p.
Proof.
  intros ot d p H. unfold opt_norm in *.
  destruct (ot =? 8).
  - destruct d as [|f1 [|f2 [|src [|scope addr]]]]; try discriminate.
    match type of H with context [if ?c then _ else _] => destruct c eqn:Hc end; [|discriminate].
    injection H as <-.
    assert (Hm : 0 <= src mod 8 <= 8) by (pose proof (Z.mod_pos_bound src 8 ltac:(lia)); lia).
    assert (Hl : zlen (mask_last addr (src mod 8)) = zlen addr) by (unfold zlen; rewrite mask_last_length; reflexivity).
    rewrite Hl. rewrite Hc. rewrite mask_last_idem by exact Hm. reflexivity.
  - destruct (ot =? 15).
    + destruct d as [|c1 [|c2 text]]; try discriminate.
      destruct (utf8 (strip0 text)) eqn:Hu; [|discriminate]. injection H as <-.
      rewrite strip0_idem, Hu. reflexivity.
    + destruct (ot =? 10).
      * match type of H with context [if ?c then _ else _] => destruct c eqn:Hc end; [|discriminate].
        injection H as <-. rewrite Hc. reflexivity.
      * destruct ((22 <=? ot) && (ot <=? 25)).
        -- destruct (utf8 d) eqn:Hu; [|discriminate]. injection H as <-. rewrite Hu. reflexivity.
        -- injection H as <-. reflexivity.
Qed.

Lemma strip0_length_le : forall b, (length (strip0 b) <= length b)%nat.
Proof. apply strip0_length. Qed.

Lemma opt_norm_length : forall ot d p, opt_norm ot d = Some p -> (length p <= length d)%nat.
Proof.
  intros ot d p H. unfold opt_norm in H.
  destruct (ot =? 8).
  - destruct d as [|f1 [|f2 [|src [|scope addr]]]]; try discriminate.
    match type of H with context [if ?c then _ else _] => destruct c end; [|discriminate].
    injection H as <-. cbn [length]. rewrite mask_last_length. lia.
  - destruct (ot =? 15).
    + destruct d as [|c1 [|c2 text]]; try discriminate.
      destruct (utf8 (strip0 text)); [|discriminate]. injection H as <-. cbn [length].
      pose proof (strip0_length text). lia.
    + destruct (ot =? 10).
      * match type of H with context [if ?c then _ else _] => destruct c end; [|discriminate]. injection H as <-. lia.
      * destruct ((22 <=? ot) && (ot <=? 25)).
        -- destruct (utf8 d); [|discriminate]. injection H as <-. lia.
        -- injection H as <-. lia.
Qed.

(* ---------- every decoded option row is valid, in normal form and short enough to encode ---------- *)
Definition opt_row_enc_ok (r : list sval) : bool :=
  match r with [VI ot; VB p] => zlen p <? 65536 | _ => false end.

Lemma opt_items_dec_ok : forall fuel wire e c items c',
  all_bytes wire = true -> (e <= length wire)%nat -> (c <= e)%nat ->
  opt_items_dec fuel wire e c = Ok (items, c') ->
  forallb opt_row_ok items = true /\ forallb opt_row_enc_ok items = true.
Proof.
  induction fuel as [|f IH]; intros wire e c items c' Hb He Hc H; cbn [opt_items_dec] in H.
  - destruct (Nat.leb e c); [|discriminate]. injection H as <- _. split; reflexivity.
  - destruct (Nat.leb_spec e c); [injection H as <- _; split; reflexivity|].
    inv_bind H. destruct x as [ot c1]. cbn [fst snd] in H.
    unfold get_u in E. inv_bind E. injection E as <- <-. destruct x as [b1 d1]. cbn [fst snd] in *.
    apply get_bytes_slice in E0 as (-> & -> & L1 & Len1); [|lia|exact He].
    pose proof (be_decode_bounds _ (all_bytes_slice wire c (c + 2) Hb)) as Bot. rewrite Len1 in Bot.
    change (pow256 2) with 65536 in Bot.
    set (otz := be_decode (slice wire c (c + 2))) in *.
    inv_bind H. destruct x as [ol c2]. cbn [fst snd] in H.
    unfold get_u in E. inv_bind E. injection E as <- <-. destruct x as [b2 d2]. cbn [fst snd] in *.
    apply get_bytes_slice in E0 as (-> & -> & L2 & Len2); [|lia|exact He].
    pose proof (be_decode_bounds _ (all_bytes_slice wire (c + 2) (c + 2 + 2) Hb)) as Bol. rewrite Len2 in Bol.
    change (pow256 2) with 65536 in Bol.
    set (olz := be_decode (slice wire (c + 2) (c + 2 + 2))) in *.
    destruct (Nat.ltb_spec (e - (c + 2 + 2)) (Z.to_nat olz)) as [|Hfit]; [discriminate|].
    inv_bind H. rename x into payload. inv_bind H. destruct x as [rest c3]. injection H as <- _.
    cbn [fst snd] in *.
    assert (Hpay : opt_payload_ok otz payload = true /\ zlen payload < 65536).
    { destruct (otz =? 18) eqn:E18.
      - unfold get_name in E.
        destruct (NameM.from_wire (firstn (c + 2 + 2 + Z.to_nat olz) wire) (c + 2 + 2)) as [[n k]| |] eqn:Ef; try discriminate.
        cbn in E. destruct (Nat.eqb (c + 2 + 2 + k) (c + 2 + 2 + Z.to_nat olz)); [|discriminate].
        injection E as <-.
        destruct (from_wire_abs_valid _ _ _ _ Ef) as [Habs Hval].
        destruct (validate_labels_ok n Hval Habs) as [_ Hwl].
        split.
        + unfold opt_payload_ok. rewrite E18.
          pose proof (from_wire_plain n [] [] Hval Habs) as Hp. cbn [app length] in Hp. rewrite app_nil_r in Hp.
          rewrite Hp. rewrite Nat.eqb_refl, zlist_eqb_refl. reflexivity.
        + unfold zlen. rewrite wire_labels_length. lia.
      - inv_bind E. destruct x as [d c4]. cbn [fst] in E.
        apply get_bytes_slice in E1 as (-> & -> & _ & Lend); [|lia|lia].
        destruct (opt_norm otz (slice wire (c + 2 + 2) (c + 2 + 2 + Z.to_nat olz))) as [q|] eqn:En; [|discriminate].
        injection E as <-. split.
        + unfold opt_payload_ok. rewrite E18. rewrite (opt_norm_idem _ _ _ En). apply zlist_eqb_refl.
        + apply opt_norm_length in En. rewrite Lend in En. unfold zlen. lia. }
    destruct Hpay as [Hp1 Hp2].
    destruct (IH wire e (c + 2 + 2 + Z.to_nat olz)%nat rest c3 Hb He ltac:(lia) E0) as [I1 I2].
    split; cbn [forallb opt_row_ok opt_row_enc_ok].
    + rewrite Hp1, I1. replace ((0 <=? otz) && (otz <=? 65535)) with true by lia. reflexivity.
    + rewrite I2. replace (zlen payload <? 65536) with true by lia. reflexivity.
Qed.

Lemma opt_items_enc_total : forall items,
  forallb opt_row_ok items = true -> forallb opt_row_enc_ok items = true ->
  exists b, opt_items_enc items = Ok b.
Proof.
  induction items as [|r rr IH]; intros H1 H2; [cbn; eauto|].
  cbn [forallb] in H1, H2. apply andb_prop in H1 as [R1 H1]. apply andb_prop in H2 as [R2 H2].
  destruct r as [|[ot| | ] [|[ |p| ] [|]]]; cbn [opt_row_ok opt_row_enc_ok] in R1, R2; try discriminate.
  apply andb_prop in R1 as [R1 _]. apply andb_prop in R1 as [O0 O1].
  destruct (IH H1 H2) as [b Eb]. cbn [opt_items_enc].
  replace ((0 <=? ot) && (ot <? 65536) && (zlen p <? 65536)) with true by lia.
  rewrite Eb. cbn [bind]. eauto.
Qed.

(* second half of C02 for OPT: the reader's output is in normal form (its validity check can
   never fail), it encodes, and the encoding is a fixed point of decode-then-encode *)
Theorem opt_fixed_point_thm : forall wire cur rdlen vs,
  all_bytes wire = true ->
  hand_decode_rdata HOpt None wire cur rdlen = Ok vs ->
  exists w', hand_encode_rdata HOpt None vs = Ok w' /\
             hand_decode_rdata HOpt None w' 0 (length w') = Ok vs.
Proof.
  intros wire cur rdlen vs Hb H. unfold hand_decode_rdata in H.
  destruct (Nat.ltb_spec (length wire) cur) as [|Hc]; [discriminate|].
  destruct (Nat.ltb_spec (length wire - cur) rdlen) as [|Hl]; [discriminate|]. cbv zeta in H.
  cbn [hand_dec hand_valid] in H. unfold opt_dec in H.
  destruct (opt_items_dec (S (cur + rdlen - cur)) wire (cur + rdlen) cur) as [[items c]| |] eqn:Ed; cbn [bind fst snd] in H; try discriminate.
  destruct (opt_valid [VL items]) eqn:Hv; cbn [negb] in H; [|discriminate].
  destruct (Nat.eqb c (cur + rdlen)); [|discriminate]. injection H as <-.
  assert (G1 : (cur + rdlen <= length wire)%nat) by lia. assert (G2 : (cur <= cur + rdlen)%nat) by lia.
  destruct (opt_items_dec_ok _ _ _ _ _ _ Hb G1 G2 Ed) as [I1 I2].
  destruct (opt_items_enc_total items I1 I2) as [w' Ew].
  assert (He : hand_encode_rdata HOpt None [VL items] = Ok w').
  { unfold hand_encode_rdata. cbn [hand_valid hand_enc]. rewrite Hv. exact Ew. }
  exists w'. split; [exact He|].
  pose proof (opt_roundtrip_thm _ w' [] [] He) as Hr. cbn [app length] in Hr. rewrite app_nil_r in Hr. exact Hr.
Qed.

(* the validity test on the reader's own output is redundant: it cannot fail *)
Theorem opt_decoded_in_normal_form : forall fuel wire e c items c',
  all_bytes wire = true -> (e <= length wire)%nat -> (c <= e)%nat ->
  opt_items_dec fuel wire e c = Ok (items, c') -> opt_valid [VL items] = true.
Proof. intros. unfold opt_valid. eapply opt_items_dec_ok; eauto. Qed.
