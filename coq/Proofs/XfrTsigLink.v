(* C13/C14 link - the abstract "this message carried a TSIG" flag of the transfer model is the
   had_tsig field of the C14 reader model (coq/Model/TsigM.v, read_stream) applied to the envelopes. *)
From DV Require Import Base.Prelude Model.XfrM Proofs.XfrSafety Proofs.XfrTsig.
From DV Require Model.TsigM.

Section Link.
Variable H : TsigM.hashid -> TsigM.bytes -> TsigM.bytes -> TsigM.bytes.

(* the driver parses the envelopes one after the other with from_wire(..., tsig_ctx=previous, multi=True)
   (TsigM.read_stream); the message handed to process_message carries the had_tsig of that parse *)
Definition tsig_linked (wires : list TsigM.bytes) (kr : TsigM.keyring) (rmac : TsigM.bytes) (now : Z)
           (ws : list wmsg) : Prop :=
  Forall2 (fun r w => exists m, r = Ok m /\ w_tsig w = TsigM.m_had_tsig m)
          (TsigM.read_stream H wires kr rmac None now) ws.

Lemma forall2_nth : forall {A B} (R : A -> B -> Prop) l1 l2 n b,
  Forall2 R l1 l2 -> nth_error l2 n = Some b -> exists a, nth_error l1 n = Some a /\ R a b.
Proof.
  intros A B R l1 l2 n b F. revert n. induction F as [|x y l1 l2 Hxy F IH]; intros n Hn.
  - destruct n; discriminate.
  - destruct n as [|n]; cbn in *; [inversion Hn; subst; eauto|apply IH, Hn].
Qed.

(* an authenticated transfer that completes: the envelope that completed it was accepted by the TSIG
   reader with a TSIG record in it (so everything C14 proves about accepted envelopes applies) *)
Theorem completion_envelope_had_tsig : forall wires kr rmac now ws z rdt ser udp z' n,
  tsig_linked wires kr rmac now ws ->
  xfr_run true z rdt ser udp ws = (Done z', n) ->
  exists m, nth_error (TsigM.read_stream H wires kr rmac None now) (pred n) = Some (Ok m)
            /\ TsigM.m_had_tsig m = true.
Proof.
  intros wires kr rmac now ws z rdt ser udp z' n HL Hrun.
  destruct (authenticated_completion_is_signed _ _ _ _ _ _ _ Hrun) as [w [Hn Hs]].
  destruct (forall2_nth _ _ _ _ _ HL Hn) as [r [Hr [m [-> Hm]]]].
  exists m. split; [exact Hr|congruence].
Qed.
End Link.
