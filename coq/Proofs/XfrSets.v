(* C13 - rdata sets as strictly increasing lists: membership characterisations of
   ins/union/diff/inter, preservation of sortedness, extensionality. *)
From DV Require Import Base.Prelude Model.XfrM.
From Coq Require Import Sorting.Sorted.

Definition ssorted (l : list Z) : Prop := StronglySorted Z.lt l.

Lemma ssorted_nil : ssorted []. Proof. constructor. Qed.
Lemma ssorted_one : forall x, ssorted [x]. Proof. intros; repeat constructor. Qed.

Lemma ssorted_inv : forall x l, ssorted (x :: l) -> ssorted l /\ Forall (Z.lt x) l.
Proof. intros x l H. inversion H; subst. split; assumption. Qed.

Lemma mem_In : forall x l, mem x l = true <-> In x l.
Proof.
  induction l as [|y r IH]; cbn [mem In].
  - split; [discriminate|tauto].
  - rewrite orb_true_iff, Z.eqb_eq, IH. split; intros [H|H]; auto.
Qed.

Lemma mem_false : forall x l, mem x l = false <-> ~ In x l.
Proof.
  intros x l. rewrite <- mem_In. destruct (mem x l); split; intros; try discriminate; auto.
  exfalso; auto.
Qed.

Lemma ins_In : forall x y l, In y (ins x l) <-> y = x \/ In y l.
Proof.
  induction l as [|z r IH]; cbn [ins].
  - cbn. intuition.
  - destruct (x <? z) eqn:H1.
    + cbn. intuition.
    + destruct (x =? z) eqn:H2.
      * apply Z.eqb_eq in H2. subst. cbn. intuition.
      * cbn [In]. rewrite IH. intuition.
Qed.

Lemma ins_sorted : forall x l, ssorted l -> ssorted (ins x l).
Proof.
  induction l as [|z r IH]; intros Hs; cbn [ins].
  - apply ssorted_one.
  - destruct (x <? z) eqn:H1.
    + apply Z.ltb_lt in H1. constructor; [assumption|].
      apply ssorted_inv in Hs. destruct Hs as [_ Hf].
      constructor; [assumption|]. eapply Forall_impl; [|exact Hf]. intros; lia.
    + destruct (x =? z) eqn:H2; [assumption|].
      apply Z.ltb_ge in H1. apply Z.eqb_neq in H2.
      apply ssorted_inv in Hs. destruct Hs as [Hs Hf].
      constructor; [apply IH; assumption|].
      apply Forall_forall. intros y Hy. apply ins_In in Hy. destruct Hy as [->|Hy]; [lia|].
      rewrite Forall_forall in Hf. auto.
Qed.

Lemma ssorted_ext : forall l1 l2, ssorted l1 -> ssorted l2 ->
  (forall x, In x l1 <-> In x l2) -> l1 = l2.
Proof.
  induction l1 as [|a r1 IH]; intros l2 H1 H2 He.
  - destruct l2 as [|b r2]; [reflexivity|]. exfalso. apply (He b). left; reflexivity.
  - destruct l2 as [|b r2]. { exfalso. apply (He a). left; reflexivity. }
    apply ssorted_inv in H1. destruct H1 as [H1 F1].
    apply ssorted_inv in H2. destruct H2 as [H2 F2].
    rewrite Forall_forall in F1, F2.
    assert (a = b).
    { destruct (proj1 (He a) (or_introl eq_refl)) as [E|E]; [auto|].
      destruct (proj2 (He b) (or_introl eq_refl)) as [E'|E']; [auto|].
      apply F2 in E. apply F1 in E'. lia. }
    subst b. f_equal. apply IH; auto.
    intros x. split; intros Hx.
    + destruct (proj1 (He x) (or_intror Hx)) as [E|E]; [|assumption].
      subst x. apply F1 in Hx. lia.
    + destruct (proj2 (He x) (or_intror Hx)) as [E|E]; [|assumption].
      subst x. apply F2 in Hx. lia.
Qed.

Lemma filter_sorted : forall f l, ssorted l -> ssorted (filter f l).
Proof.
  induction l as [|a r IH]; intros Hs; cbn [filter]; [constructor|].
  apply ssorted_inv in Hs. destruct Hs as [Hs Hf].
  destruct (f a); [|apply IH; assumption].
  constructor; [apply IH; assumption|]. apply Forall_forall. intros x Hx. apply filter_In in Hx.
  rewrite Forall_forall in Hf. apply Hf, Hx.
Qed.

Lemma ssorted_NoDup : forall l, ssorted l -> NoDup l.
Proof.
  induction l as [|a r IH]; intros Hs; constructor.
  - apply ssorted_inv in Hs. destruct Hs as [_ Hf]. rewrite Forall_forall in Hf.
    intros Hin. apply Hf in Hin. lia.
  - apply IH. apply ssorted_inv in Hs. tauto.
Qed.

Lemma union_In : forall b a x, In x (union a b) <-> In x a \/ In x b.
Proof.
  unfold union. induction b as [|y r IH]; intros a x; cbn [fold_left].
  - cbn. tauto.
  - rewrite IH, ins_In. cbn [In]. intuition.
Qed.

Lemma union_sorted : forall b a, ssorted a -> ssorted (union a b).
Proof.
  unfold union. induction b as [|y r IH]; intros a Ha; cbn [fold_left]; [assumption|].
  apply IH, ins_sorted, Ha.
Qed.

Lemma union_one : forall a d, union a [d] = ins d a.
Proof. reflexivity. Qed.

Lemma union_nil_sorted : forall l, ssorted l -> union [] l = l.
Proof.
  intros l Hl. apply ssorted_ext; [apply union_sorted; constructor|assumption|].
  intros x. rewrite union_In. cbn. tauto.
Qed.

Lemma diff_In : forall a b x, In x (diff a b) <-> In x a /\ ~ In x b.
Proof.
  intros a b x. unfold diff. rewrite filter_In, negb_true_iff, mem_false. tauto.
Qed.

Lemma inter_In : forall a b x, In x (inter a b) <-> In x a /\ In x b.
Proof. intros a b x. unfold inter. rewrite filter_In, mem_In. tauto. Qed.

Lemma set_eqb_spec : forall a b, set_eqb a b = true <-> (forall x, In x a <-> In x b).
Proof.
  intros a b. unfold set_eqb. rewrite andb_true_iff, !forallb_forall. split.
  - intros [H1 H2] x. split; intros Hx; [apply mem_In, H1|apply mem_In, H2]; assumption.
  - intros H. split; intros x Hx; apply mem_In, H, Hx.
Qed.

Lemma set_eqb_one : forall a b, set_eqb [a] [b] = (a =? b).
Proof.
  intros a b. unfold set_eqb. cbn. rewrite !orb_false_r, !andb_true_r.
  rewrite (Z.eqb_sym b a). apply andb_diag.
Qed.

(* exact deletion of one present record *)
Lemma inter_one_present : forall S d, In d S -> set_eqb (inter S [d]) [d] = true.
Proof.
  intros S d H. apply set_eqb_spec. intros x. rewrite inter_In. cbn. intuition. subst; auto.
Qed.

Lemma inter_one_absent : forall S d, ~ In d S -> set_eqb (inter S [d]) [d] = false.
Proof.
  intros S d H. destruct (set_eqb (inter S [d]) [d]) eqn:E; [|reflexivity].
  exfalso. apply H. rewrite set_eqb_spec in E. specialize (E d). rewrite inter_In in E.
  apply E. left; reflexivity.
Qed.

Lemma diff_diff : forall S a b, diff (diff S a) b = diff S (a ++ b).
Proof.
  intros S a b. unfold diff. induction S as [|x r IH]; cbn [filter]; [reflexivity|].
  assert (Hm : mem x (a ++ b) = mem x a || mem x b).
  { clear. induction a as [|y a IH]; cbn [mem app]; [reflexivity|]. rewrite IH. rewrite orb_assoc. reflexivity. }
  rewrite Hm. destruct (mem x a); cbn [negb orb filter].
  - apply IH.
  - destruct (mem x b); cbn [negb]; rewrite IH; reflexivity.
Qed.

(* for a type that is not a singleton, Rdataset.add is set insertion and union_update is set union *)
Lemma rds_add_plain : forall ty d ds, is_singleton ty = false -> rds_add ty d ds = ins d ds.
Proof. intros ty d ds H. unfold rds_add. rewrite H. reflexivity. Qed.

Lemma fold_rds_add_union : forall ty new erds, is_singleton ty = false ->
  fold_left (fun acc x => rds_add ty x acc) new erds = union erds new.
Proof.
  intros ty new. unfold union. induction new as [|x new IH]; intros erds H; cbn [fold_left]; [reflexivity|].
  rewrite rds_add_plain by exact H. apply IH, H.
Qed.

Lemma singleton_soa : is_singleton tSOA = true. Proof. reflexivity. Qed.

Lemma not_singleton_not_soa : forall t, is_singleton t = false -> t <> tSOA.
Proof. intros t H E. subst t. discriminate. Qed.

Lemma min_same : forall t : Z, (if t <? t then t else t) = t.
Proof. intros t. destruct (t <? t); reflexivity. Qed.
