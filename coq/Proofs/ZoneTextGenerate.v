(* C09: a $GENERATE statement loads exactly like the record lines of its expansion. *)
From DV Require Import Base.Prelude Model.NameM Model.ZoneTextM.
From DV Require Import Proofs.NameValid Proofs.NameText Proofs.NameTok.
From DV Require Import Proofs.ZoneTextBase Proofs.ZoneTextInv Proofs.ZoneTextRespell Proofs.ZoneTextRead.
Open Scope Z_scope.

(* ---------- names read against an absolute origin are absolute ---------- *)
Lemma ends_with_root_app (l co : name) : ends_with_root co = true -> ends_with_root (l ++ co) = true.
Proof.
  unfold ends_with_root. rewrite rev_app_distr.
  destruct (rev co) as [|x r]; [discriminate|]. destruct x; [|discriminate]. reflexivity.
Qed.

Lemma from_text_absolute v co n :
  is_absolute co = true -> NameM.from_text v (Some co) = Ok n -> is_absolute n = true.
Proof.
  intros Hco. rewrite <- ends_with_root_abs in Hco.
  assert (Hfin : forall labels : name, finish labels (Some co) = Ok n -> is_absolute n = true).
  { intros labels H. unfold finish in H. apply mk_name_ok in H as [-> _]. rewrite <- ends_with_root_abs.
    destruct (ends_with_root labels) eqn:E; cbn [negb]; [exact E|apply ends_with_root_app; exact Hco]. }
  destruct (list_eq_dec Z.eq_dec v [64]) as [->|H64].
  { intros H. apply (Hfin []). exact H. }
  destruct (list_eq_dec Z.eq_dec v [46]) as [->|H46].
  { intros H. cbn in H. apply mk_name_ok in H as [-> _]. reflexivity. }
  destruct (list_eq_dec Z.eq_dec v []) as [->|Hne].
  { intros H. apply (Hfin []). exact H. }
  rewrite from_text_generic by assumption.
  destruct (ft_loop v [] [] false 0%nat 0) as [[[labels lab] esc]|e|e]; try discriminate.
  destruct esc; [discriminate|]. apply Hfin.
Qed.

Lemma as_name_owner_absolute v co nm :
  is_absolute co = true ->
  lift_name true (NameM.from_text v (Some co)) = Ok nm ->
  as_name true v (Some co) false None = Ok nm.
Proof.
  intros Hco H. unfold as_name. rewrite H. cbn [bind].
  assert (Hn : is_absolute nm = true).
  { destruct (NameM.from_text v (Some co)) as [n0| |] eqn:E; cbn in H.
    - inversion H; subst. eapply from_text_absolute; eauto.
    - unfold name_err in H. destruct (_ =? _); [discriminate|]. destruct (_ || _); discriminate.
    - discriminate. }
  rewrite (choose_derel_abs nm (Some co) Hn). reflexivity.
Qed.

(* ---------- record fields with an arbitrary TTL spelling ---------- *)
Definition ttl_given (s : rstate) (ttlo : option (list Z)) (ttl : Z) : Prop :=
  match ttlo with
  | Some tv => ttl_from_text tv = Ok ttl
  | None => (dttl_known s = true /\ dttl s = ttl) \/
            (dttl_known s = false /\ lttl_known s = true /\ lttl s = ttl)
  end.

Definition after_ttlo (s : rstate) (ttlo : option (list Z)) (ttl : Z) : rstate :=
  match ttlo with Some _ => set_lttl s ttl | None => s end.

Lemma rr_fields_gen c s co zo n ttlo ttl clso tyt ty toks lerr :
  ttl_given s ttlo ttl ->
  (forall cv, clso = Some cv -> class_from_text cv = Some (c_class c)) ->
  type_from_text tyt = Some ty -> class_from_text tyt = None -> ttl_from_text tyt = Lib eBadTTL ->
  ty <> tSOA ->
  rr_fields c s co zo n (opt_tok ttlo ++ opt_tok clso ++ TId tyt :: toks) lerr =
  (do rd <- parse_rdata ty toks lerr co (c_rel c) zo;
   do z' <- txn_add zo (c_rel c) (zn s) n ttl ty rd;
   Ok (set_zn (after_ttlo s ttlo ttl) z')).
Proof.
  intros Httl Hcls Hty Htc Htt Hsoa.
  assert (Hs : (ty =? tSOA) = false) by (apply Z.eqb_neq; exact Hsoa).
  unfold rr_fields, after_ttlo, ttl_given in *.
  destruct ttlo as [tv|]; destruct clso as [cv|]; cbn [opt_tok app get_ident bind].
  - rewrite Httl. cbn [get_ident bind]. rewrite (Hcls cv eq_refl), Z.eqb_refl. cbn [negb get_ident bind].
    rewrite Hty. destruct (parse_rdata ty toks lerr co (c_rel c) zo); cbn [bind]; try reflexivity.
    rewrite Hs, andb_false_r. st_simpl. reflexivity.
  - rewrite Httl. cbn [get_ident bind]. rewrite Htc, Z.eqb_refl. cbn [negb get_ident bind].
    rewrite Hty. destruct (parse_rdata ty toks lerr co (c_rel c) zo); cbn [bind]; try reflexivity.
    rewrite Hs, andb_false_r. st_simpl. reflexivity.
  - rewrite (class_not_ttl _ _ (Hcls cv eq_refl)). cbn [get_ident bind].
    rewrite (Hcls cv eq_refl), Z.eqb_refl. cbn [negb get_ident bind]. rewrite Htt. cbn [bind get_ident].
    rewrite Hty. destruct (parse_rdata ty toks lerr co (c_rel c) zo); cbn [bind]; try reflexivity.
    rewrite Hs, andb_false_r.
    destruct Httl as [[Hk Hv]|(Hk & Hl & Hv)]; rewrite Hk; [|rewrite Hl]; rewrite Hv; reflexivity.
  - rewrite Htt. cbn [get_ident bind]. rewrite Htc, Z.eqb_refl. cbn [negb get_ident bind].
    rewrite Htt. cbn [bind get_ident].
    rewrite Hty. destruct (parse_rdata ty toks lerr co (c_rel c) zo); cbn [bind]; try reflexivity.
    rewrite Hs, andb_false_r.
    destruct Httl as [[Hk Hv]|(Hk & Hl & Hv)]; rewrite Hk; [|rewrite Hl]; rewrite Hv; reflexivity.
Qed.

(* ---------- the expansion ---------- *)
Definition gmodt := (list Z * bool * Z * Z * Z)%type.

Definition gen_text (side : list Z) (m : gmodt) (i : Z) : list Z :=
  let '(md, neg, off, width, base) := m in
  replace_all (36 :: md) (format_index (i + (if neg then - off else off)) base width) side.

(* the i-th line of the expansion: owner, the statement's TTL / class / type fields, and the
   tokens of the substituted right-hand side *)
Definition gen_exp_line (lhs rhs : list Z) (lm rm : gmodt) (ttlo clso : option (list Z)) (tyt : list Z) (i : Z)
  : list tok * bool :=
  let '(toks, term, _) := lex (gen_text rhs rm i) 0 MSkip [] in
  (TId (gen_text lhs lm i) :: opt_tok ttlo ++ opt_tok clso ++ TId tyt :: toks,
   match term with TErr => true | _ => false end).

Fixpoint exp_fold (count : nat) (i step : Z) (c : cfg) (s : rstate) (lhs rhs : list Z) (lm rm : gmodt)
         (ttlo clso : option (list Z)) (tyt : list Z) : res rstate :=
  match count with
  | O => Ok s
  | S k =>
      let '(toks, lerr) := gen_exp_line lhs rhs lm rm ttlo clso tyt i in
      do s' <- rr_line c s false toks lerr;
      exp_fold k (i + step) step c s' lhs rhs lm rm ttlo clso tyt
  end.

Lemma set_lttl_set_last_comm s t n : set_last (set_lttl s t) n = set_lttl (set_last s n) t.
Proof. reflexivity. Qed.

Section Gen.
  Variables (c : cfg) (co zo : name) (lhs rhs : list Z).
  Variables (ttlo clso : option (list Z)) (tyt : list Z) (ttl ty step : Z).
  Hypothesis Hco : is_absolute co = true.
  Hypothesis Hcls : forall cv, clso = Some cv -> class_from_text cv = Some (c_class c).
  Hypothesis Hty : type_from_text tyt = Some ty.
  Hypothesis Htc : class_from_text tyt = None.
  Hypothesis Htt : ttl_from_text tyt = Lib eBadTTL.
  Hypothesis Hsoa : ty <> tSOA.

  (* g: the state of _generate_line's loop (last_ttl already set when the statement has a TTL);
     f: the state of the line-by-line reader *)
  Definition rel_gf (g f : rstate) : Prop := g = after_ttlo f ttlo ttl.

  Lemma gen_loop_exp (lm rm : gmodt) : forall count i g f g',
    rel_gf g f -> corigin f = Some co -> zorigin f = Some zo -> ttl_given f ttlo ttl ->
    gen_loop count i step c g co zo lhs rhs lm rm ttl ty = Ok (g', false) ->
    exists f', exp_fold count i step c f lhs rhs lm rm ttlo clso tyt = Ok f' /\ rel_gf g' f' /\
               (count <> O -> g' = f').
  Proof.
    destruct lm as [[[[lmod lneg] loff] lwidth] lbase].
    destruct rm as [[[[rmod rneg] roff] rwidth] rbase].
    induction count as [|k IH]; intros i g f g' HR Hcf Hzf Httl H; cbn [gen_loop] in H.
    - inversion H; subst. exists f. split; [reflexivity|]. split; [exact HR|congruence].
    - cbv beta iota in H.
      apply bind_ok in H as (nm & Hnm & H).
      destruct (negb (is_subdomain nm zo)) eqn:Esub; [inversion H|].
      apply negb_false_iff in Esub.
      apply bind_ok in H as (n & Hn & H).
      destruct (lex (replace_all (36 :: rmod) (format_index (i + (if rneg then - roff else roff)) rbase rwidth) rhs) 0 MSkip [])
        as [[toks term] rest0] eqn:Elex.
      apply bind_ok in H as (rd & Hrd & H).
      apply bind_ok in H as (z' & Hadd & H).
      (* the same step, line by line *)
      assert (Hzg : zn (set_last g nm) = zn f) by (rewrite HR; destruct ttlo; reflexivity).
      assert (Hline : rr_line c f false (fst (gen_exp_line lhs rhs (lmod, lneg, loff, lwidth, lbase) (rmod, rneg, roff, rwidth, rbase) ttlo clso tyt i))
                        (snd (gen_exp_line lhs rhs (lmod, lneg, loff, lwidth, lbase) (rmod, rneg, roff, rwidth, rbase) ttlo clso tyt i)) =
                      Ok (set_zn (after_ttlo (set_last f nm) ttlo ttl) z')).
      { unfold gen_exp_line, gen_text. rewrite Elex. cbn [fst snd].
        unfold rr_line. rewrite Hcf.
        rewrite (as_name_owner_absolute _ _ _ Hco Hnm). cbn [bind]. st_simpl.
        rewrite Hzf, Esub. cbn [negb]. rewrite Hn. cbn [bind].
        assert (Httl1 : ttl_given (set_last f nm) ttlo ttl) by (destruct ttlo; exact Httl).
        rewrite (rr_fields_gen c (set_last f nm) co zo n ttlo ttl clso tyt ty toks _ Httl1 Hcls Hty Htc Htt Hsoa).
        rewrite Hrd. cbn [bind]. st_simpl. rewrite Hzg in Hadd. rewrite Hadd. reflexivity. }
      set (f1 := set_zn (after_ttlo (set_last f nm) ttlo ttl) z').
      assert (HR1 : rel_gf (set_zn (set_last g nm) z') f1).
      { unfold rel_gf, f1. rewrite HR. destruct ttlo; destruct f; reflexivity. }
      destruct (IH (i + step) (set_zn (set_last g nm) z') f1 g' HR1) as (f' & Hf' & HR' & Heq); auto.
      + unfold f1. destruct ttlo; st_simpl; exact Hcf.
      + unfold f1. destruct ttlo; st_simpl; exact Hzf.
      + unfold f1, ttl_given in *. destruct ttlo; st_simpl; exact Httl.
      + exists f'. split; [|split].
        * cbn [exp_fold]. destruct (gen_exp_line lhs rhs (lmod, lneg, loff, lwidth, lbase) (rmod, rneg, roff, rwidth, rbase) ttlo clso tyt i) as [tk le].
          cbn [fst snd] in Hline. rewrite Hline. cbn [bind]. exact Hf'.
        * exact HR'.
        * intros _. destruct k as [|k'].
          -- cbn [gen_loop] in H. cbn [exp_fold] in Hf'.
             assert (E1 : g' = set_zn (set_last g nm) z') by (inversion H; reflexivity).
             assert (E2 : f' = f1) by (inversion Hf'; reflexivity).
             rewrite E1, E2. unfold f1. unfold rel_gf in HR. rewrite HR.
             destruct ttlo; reflexivity.
          -- apply Heq. discriminate.
  Qed.
End Gen.

Lemma grange_bounds t a b st : grange_from_text t = Ok (a, b, st) -> 0 <= a <= b /\ 1 <= st.
Proof.
  unfold grange_from_text. intros H.
  assert (Hend : forall start stop step,
            (if negb (step >=? 1) then Internal iAssertion
             else if negb (start >=? 0) then Internal iAssertion
             else if start >? stop then Lib eSyntax else Ok (start, stop, step)) = Ok (a, b, st) ->
            0 <= a <= b /\ 1 <= st).
  { intros start stop step H0.
    destruct (step >=? 1) eqn:E1; [|discriminate]. destruct (start >=? 0) eqn:E2; [|discriminate].
    destruct (start >? stop) eqn:E3; [discriminate|]. cbn in H0. inversion H0; subst.
    rewrite Z.geb_leb in E1, E2. apply Z.leb_le in E1, E2. rewrite Z.gtb_ltb in E3. apply Z.ltb_ge in E3. lia. }
  destruct t as [|c0 t0].
  - cbn in H. discriminate.
  - assert (H' : (do (start, stop, cur, st0) <- grange_loop (c0 :: t0) (-1) (-1) [] G0;
                  do (stop, step) <-
                     (match st0 with
                      | G0 => Lib eSyntax
                      | G1 => do v <- py_int (rev cur); Ok (v, 1)
                      | G2 => do v <- py_int (rev cur); Ok (stop, v)
                      end);
                  if negb (step >=? 1) then Internal iAssertion
                  else if negb (start >=? 0) then Internal iAssertion
                  else if start >? stop then Lib eSyntax else Ok (start, stop, step)) = Ok (a, b, st)).
    { revert H. destruct c0 as [|p|p]; try exact (fun H => H).
      repeat (destruct p as [p|p|]; try exact (fun H => H)). discriminate. }
    apply bind_ok in H' as ([[[start stop] cur] st0] & _ & H').
    apply bind_ok in H' as ([stop' step] & _ & H'). eapply Hend; eauto.
Qed.

(* A $GENERATE statement that loads (without meeting an out-of-zone name, and not of type SOA)
   leaves exactly the state that reading the lines of its expansion one by one leaves. *)
Theorem respell_generate_proof c s co zo t0 lhs ttlo clso tyt rhs start stop step ttl ty lm rm s' :
  corigin s = Some co -> zorigin s = Some zo -> is_absolute co = true ->
  grange_from_text (tokval t0) = Ok (start, stop, step) ->
  ttl_given s ttlo ttl ->
  (forall cv, clso = Some cv -> class_from_text cv = Some (c_class c)) ->
  type_from_text tyt = Some ty -> class_from_text tyt = None -> ttl_from_text tyt = Lib eBadTTL ->
  ty <> tSOA ->
  parse_modify lhs = Ok lm -> parse_modify rhs = Ok rm ->
  generate_line c s (t0 :: TId lhs :: opt_tok ttlo ++ opt_tok clso ++ [TId tyt; TId rhs]) false = Ok (s', Some []) ->
  exp_fold (Z.to_nat ((stop - start) / step + 1)) start step c s lhs rhs lm rm ttlo clso tyt = Ok s'.
Proof.
  intros Hco Hzo Hab Hgr Httl Hcls Hty Htc Htt Hsoa Hlm Hrm H.
  destruct (grange_bounds _ _ _ _ Hgr) as [Hr1 Hr2].
  assert (Hcount : Z.to_nat ((stop - start) / step + 1) <> O).
  { assert (0 <= (stop - start) / step) by (apply Z.div_pos; lia). lia. }
  unfold generate_line in H. rewrite Hco, Hgr in H. cbn [get_ident bind] in H.
  assert (Hgen : forall g toks4,
            (do (s2, eaten) <- gen_loop (Z.to_nat ((stop - start) / step + 1)) start step c g co zo lhs rhs lm rm ttl ty;
             if eaten then Ok (s2, None) else Ok (s2, Some toks4)) = Ok (s', Some (@nil tok)) ->
            rel_gf ttlo ttl g s -> toks4 = @nil tok ->
            exp_fold (Z.to_nat ((stop - start) / step + 1)) start step c s lhs rhs lm rm ttlo clso tyt = Ok s').
  { intros g toks4 HG HR ->. apply bind_ok in HG as ([s2 eaten] & HL & HG).
    destruct eaten; inversion HG; subst.
    destruct (gen_loop_exp c co zo lhs rhs ttlo clso tyt ttl ty step Hab Hcls Hty Htc Htt Hsoa lm rm
                _ _ g s s' HR Hco Hzo Httl HL) as (f' & Hf & _ & Heq).
    rewrite Hf, (Heq Hcount). reflexivity. }
  unfold ttl_given in Httl.
  destruct ttlo as [tv|]; destruct clso as [cv|]; cbn [opt_tok app get_ident bind] in H.
  - rewrite Httl in H. cbn [get_ident bind] in H. rewrite (Hcls cv eq_refl) in H. cbn [get_ident bind] in H.
    rewrite Z.eqb_refl in H. cbn [negb] in H. rewrite Hty in H. cbn [get_ident bind] in H.
    rewrite Hlm, Hrm in H. cbn [bind] in H. st_simpl. rewrite Hzo in H.
    eapply Hgen; [exact H|reflexivity|reflexivity].
  - rewrite Httl in H. cbn [get_ident bind] in H. rewrite Htc in H. cbn [get_ident bind] in H.
    rewrite Z.eqb_refl in H. cbn [negb] in H. rewrite Hty in H. cbn [get_ident bind] in H.
    rewrite Hlm, Hrm in H. cbn [bind] in H. st_simpl. rewrite Hzo in H.
    eapply Hgen; [exact H|reflexivity|reflexivity].
  - rewrite (class_not_ttl _ _ (Hcls cv eq_refl)) in H.
    destruct Httl as [[Hk Hv]|(Hk & Hl & Hv)]; rewrite Hk in H; [|rewrite Hl in H]; cbn [bind] in H;
      rewrite (Hcls cv eq_refl) in H; cbn [get_ident bind] in H;
      rewrite Z.eqb_refl in H; cbn [negb] in H; rewrite Hty in H; cbn [get_ident bind] in H;
      rewrite Hlm, Hrm in H; cbn [bind] in H; rewrite Hzo, Hv in H;
      (eapply Hgen; [exact H|reflexivity|reflexivity]).
  - rewrite Htt in H.
    destruct Httl as [[Hk Hv]|(Hk & Hl & Hv)]; rewrite Hk in H; [|rewrite Hl in H]; cbn [bind] in H;
      rewrite Htc in H; cbn [get_ident bind] in H;
      rewrite Z.eqb_refl in H; cbn [negb] in H; rewrite Hty in H; cbn [get_ident bind] in H;
      rewrite Hlm, Hrm in H; cbn [bind] in H; rewrite Hzo, Hv in H;
      (eapply Hgen; [exact H|reflexivity|reflexivity]).
Qed.

(* ---------- the same with the error cases: unless an out-of-zone name stops the statement, the
   loop of _generate_line and the line-by-line reading of the expansion end alike - same state,
   or the same exception ---------- *)
Definition same_outcome (ttlo : option (list Z)) (ttl : Z) (rg : res (rstate * bool)) (rf : res rstate) : Prop :=
  match rg with
  | Ok (g', false) => exists f', rf = Ok f' /\ g' = after_ttlo f' ttlo ttl
  | Ok (_, true) => True
  | Lib e => rf = Lib e
  | Internal e => rf = Internal e
  end.

Lemma bind_lib {A B} (r : res A) (f : A -> res B) e : r = Lib e -> bind r f = Lib e.
Proof. intros ->. reflexivity. Qed.
Lemma bind_int {A B} (r : res A) (f : A -> res B) e : r = Internal e -> bind r f = Internal e.
Proof. intros ->. reflexivity. Qed.

Section GenAll.
  Variables (c : cfg) (co zo : name) (lhs rhs : list Z).
  Variables (ttlo clso : option (list Z)) (tyt : list Z) (ttl ty step : Z).
  Hypothesis Hco : is_absolute co = true.
  Hypothesis Hcls : forall cv, clso = Some cv -> class_from_text cv = Some (c_class c).
  Hypothesis Hty : type_from_text tyt = Some ty.
  Hypothesis Htc : class_from_text tyt = None.
  Hypothesis Htt : ttl_from_text tyt = Lib eBadTTL.
  Hypothesis Hsoa : ty <> tSOA.

  Lemma as_name_owner_err v e :
    lift_name true (NameM.from_text v (Some co)) = Lib e -> as_name true v (Some co) false None = Lib e.
  Proof. intros H. unfold as_name. rewrite H. reflexivity. Qed.
  Lemma as_name_owner_int v e :
    lift_name true (NameM.from_text v (Some co)) = Internal e -> as_name true v (Some co) false None = Internal e.
  Proof. intros H. unfold as_name. rewrite H. reflexivity. Qed.

  Lemma gen_loop_outcome (lm rm : gmodt) : forall count i g f,
    rel_gf ttlo ttl g f -> corigin f = Some co -> zorigin f = Some zo -> ttl_given f ttlo ttl ->
    same_outcome ttlo ttl (gen_loop count i step c g co zo lhs rhs lm rm ttl ty)
                 (exp_fold count i step c f lhs rhs lm rm ttlo clso tyt).
  Proof.
    destruct lm as [[[[lmod lneg] loff] lwidth] lbase].
    destruct rm as [[[[rmod rneg] roff] rwidth] rbase].
    induction count as [|k IH]; intros i g f HR Hcf Hzf Httl; cbn [gen_loop exp_fold].
    - cbn. exists f. split; [reflexivity|exact HR].
    - cbv beta iota. unfold gen_exp_line, gen_text.
      set (nametext := replace_all (36 :: lmod) (format_index (i + (if lneg then - loff else loff)) lbase lwidth) lhs).
      set (rdtext := replace_all (36 :: rmod) (format_index (i + (if rneg then - roff else roff)) rbase rwidth) rhs).
      destruct (lex rdtext 0 MSkip []) as [[toks term] rest0] eqn:Elex.
      set (lerr := match term with TErr => true | _ => false end).
      assert (Hzg : forall nm, zn (set_last g nm) = zn f) by (intros; rewrite HR; destruct ttlo; reflexivity).
      (* owner *)
      destruct (lift_name true (NameM.from_text nametext (Some co))) as [nm|e|e] eqn:Enm; cbn [bind].
      2:{ unfold rr_line. rewrite Hcf, (as_name_owner_err _ _ Enm). reflexivity. }
      2:{ unfold rr_line. rewrite Hcf, (as_name_owner_int _ _ Enm). reflexivity. }
      destruct (negb (is_subdomain nm zo)) eqn:Esub; [exact Logic.I|].
      apply negb_false_iff in Esub.
      assert (Hline : rr_line c f false (TId nametext :: opt_tok ttlo ++ opt_tok clso ++ TId tyt :: toks) lerr =
                      (do n <- (if c_rel c then lift_name true (relativize nm zo) else Ok nm);
                       do rd <- parse_rdata ty toks lerr co (c_rel c) zo;
                       do z' <- txn_add zo (c_rel c) (zn f) n ttl ty rd;
                       Ok (set_zn (after_ttlo (set_last f nm) ttlo ttl) z'))).
      { unfold rr_line. rewrite Hcf, (as_name_owner_absolute _ _ _ Hco Enm). cbn [bind]. st_simpl.
        rewrite Hzf, Esub. cbn [negb].
        destruct (if c_rel c then lift_name true (relativize nm zo) else Ok nm) as [n|e|e]; cbn [bind]; try reflexivity.
        assert (Httl1 : ttl_given (set_last f nm) ttlo ttl) by (destruct ttlo; exact Httl).
        rewrite (rr_fields_gen c (set_last f nm) co zo n ttlo ttl clso tyt ty toks lerr Httl1 Hcls Hty Htc Htt Hsoa).
        reflexivity. }
      rewrite Hline. clear Hline.
      destruct (if c_rel c then lift_name true (relativize nm zo) else Ok nm) as [n|e|e]; cbn [bind]; try reflexivity.
      fold lerr.
      destruct (parse_rdata ty toks lerr co (c_rel c) zo) as [rd|e|e]; cbn [bind]; try reflexivity.
      rewrite (Hzg nm).
      destruct (txn_add zo (c_rel c) (zn f) n ttl ty rd) as [z'|e|e]; cbn [bind]; try reflexivity.
      set (f1 := set_zn (after_ttlo (set_last f nm) ttlo ttl) z').
      assert (HR1 : rel_gf ttlo ttl (set_zn (set_last g nm) z') f1).
      { unfold rel_gf, f1. rewrite HR. destruct ttlo; destruct f; reflexivity. }
      apply (IH (i + step) _ f1 HR1).
      + unfold f1. destruct ttlo; st_simpl; exact Hcf.
      + unfold f1. destruct ttlo; st_simpl; exact Hzf.
      + unfold f1, ttl_given in *. destruct ttlo; st_simpl; exact Httl.
  Qed.
End GenAll.

(* statement level: a $GENERATE that is rejected is rejected with the exception its expansion raises *)
Theorem respell_generate_errors_proof c s co zo t0 lhs ttlo clso tyt rhs start stop step ttl ty lm rm :
  corigin s = Some co -> zorigin s = Some zo -> is_absolute co = true ->
  grange_from_text (tokval t0) = Ok (start, stop, step) ->
  ttl_given s ttlo ttl ->
  (forall cv, clso = Some cv -> class_from_text cv = Some (c_class c)) ->
  type_from_text tyt = Some ty -> class_from_text tyt = None -> ttl_from_text tyt = Lib eBadTTL ->
  ty <> tSOA ->
  parse_modify lhs = Ok lm -> parse_modify rhs = Ok rm ->
  let stmt := generate_line c s (t0 :: TId lhs :: opt_tok ttlo ++ opt_tok clso ++ [TId tyt; TId rhs]) false in
  let expn := exp_fold (Z.to_nat ((stop - start) / step + 1)) start step c s lhs rhs lm rm ttlo clso tyt in
  (forall e, stmt = Lib e -> expn = Lib e) /\ (forall e, stmt = Internal e -> expn = Internal e).
Proof.
  intros Hco Hzo Hab Hgr Httl Hcls Hty Htc Htt Hsoa Hlm Hrm stmt expn.
  assert (Hgen : forall g (toks4 : list tok),
            rel_gf ttlo ttl g s ->
            let r := (do (s2, eaten) <- gen_loop (Z.to_nat ((stop - start) / step + 1)) start step c g co zo lhs rhs lm rm ttl ty;
                      if eaten then Ok (s2, @None (list tok)) else Ok (s2, Some toks4)) in
            (forall e, r = Lib e -> expn = Lib e) /\ (forall e, r = Internal e -> expn = Internal e)).
  { intros g toks4 HR r.
    pose proof (gen_loop_outcome c co zo lhs rhs ttlo clso tyt ttl ty step Hab Hcls Hty Htc Htt Hsoa lm rm
                  (Z.to_nat ((stop - start) / step + 1)) start g s HR Hco Hzo Httl) as HO.
    unfold r. fold expn in HO.
    destruct (gen_loop _ start step c g co zo lhs rhs lm rm ttl ty) as [[s2 eaten]|e0|e0]; cbn [bind same_outcome] in *.
    - destruct eaten; split; intros e H; discriminate H.
    - split; intros e H; inversion H; subst; exact HO.
    - split; intros e H; inversion H; subst; exact HO. }
  unfold stmt, generate_line. rewrite Hco, Hgr. cbn [get_ident bind].
  unfold ttl_given in Httl.
  destruct ttlo as [tv|]; destruct clso as [cv|]; cbn [opt_tok app get_ident bind].
  - rewrite Httl. cbn [get_ident bind]. rewrite (Hcls cv eq_refl). cbn [get_ident bind].
    rewrite Z.eqb_refl. cbn [negb]. rewrite Hty. cbn [get_ident bind]. rewrite Hlm, Hrm. cbn [bind]. st_simpl. rewrite Hzo.
    apply Hgen. reflexivity.
  - rewrite Httl. cbn [get_ident bind]. rewrite Htc. cbn [get_ident bind].
    rewrite Z.eqb_refl. cbn [negb]. rewrite Hty. cbn [get_ident bind]. rewrite Hlm, Hrm. cbn [bind]. st_simpl. rewrite Hzo.
    apply Hgen. reflexivity.
  - rewrite (class_not_ttl _ _ (Hcls cv eq_refl)).
    destruct Httl as [[Hk Hv]|(Hk & Hl & Hv)]; rewrite Hk; [|rewrite Hl]; cbn [bind];
      rewrite (Hcls cv eq_refl); cbn [get_ident bind]; rewrite Z.eqb_refl; cbn [negb]; rewrite Hty; cbn [get_ident bind];
      rewrite Hlm, Hrm; cbn [bind]; rewrite Hzo, Hv; apply Hgen; reflexivity.
  - rewrite Htt.
    destruct Httl as [[Hk Hv]|(Hk & Hl & Hv)]; rewrite Hk; [|rewrite Hl]; cbn [bind];
      rewrite Htc; cbn [get_ident bind]; rewrite Z.eqb_refl; cbn [negb]; rewrite Hty; cbn [get_ident bind];
      rewrite Hlm, Hrm; cbn [bind]; rewrite Hzo, Hv; apply Hgen; reflexivity.
Qed.
