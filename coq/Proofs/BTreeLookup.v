(* C19 - lookup, and the executable well-formedness check reflects the predicate. *)
From DV Require Import Base.Prelude Model.BTreeM Proofs.BTreeBase Proofs.BTreeWf Proofs.BTreeInsert.

Section LOOKUP.
Variable t : nat.
Hypothesis Ht : (3 <= t)%nat.
Notation wfn := (wfn t).

Lemma get_spec k : forall fuel h, (h <= fuel)%nat -> forall lo n,
  wfn lo h n -> ksorted (elements n) -> get fuel n k = Ok (find_sorted k (elements n)).
Proof.
  induction fuel as [|f IH]; intros h Hf lo n Hw Hs.
  { pose proof (wfn_pos t Ht _ _ _ Hw). lia. }
  pose proof (node_es_sorted t Ht _ _ _ Hw Hs) as Hes.
  destruct n as [lf es ks]. cbn [n_elts] in Hes. cbn [get].
  destruct (search_cases k es Hes) as [(ea & v & eb & -> & Hsr & Hlt & Hgt)|(ea & eb & -> & Hsr & Hlt & Hgt)];
    rewrite Hsr; cbn [bind].
  - rewrite split_at_app by reflexivity. cbn [bind]. f_equal.
    apply wfn_inv in Hw as (Hb & [(-> & -> & ->)|(-> & h' & -> & Hk & Hall)]).
    + cbn [elements]. rewrite find_sorted_lt by assumption. cbn. now rewrite Z.eqb_refl.
    + destruct (elements_at_elt ea eb ks) as (A & B & HAB).
      { rewrite Hk, !app_length. reflexivity. }
      rewrite HAB in *. apply ksorted_mid in Hs as (HA & _). cbn [fst] in HA.
      rewrite find_sorted_lt by assumption. cbn. now rewrite Z.eqb_refl.
  - apply wfn_inv in Hw as (Hb & [(-> & -> & ->)|(-> & h' & -> & Hk & Hall)]).
    + cbn [elements]. rewrite find_sorted_lt, find_sorted_gt by assumption. reflexivity.
    + destruct (node_decomp1 (ea ++ eb) ks (length ea) Hk) as (ea' & eb' & ka & c & kb & He & -> & H1 & H2 & H3).
      { rewrite app_length. lia. }
      destruct (app_eq_len _ _ _ _ He H1) as (-> & ->).
      rewrite split_at_app by assumption. cbn [bind].
      apply Forall_mid in Hall as (Ha & Hc & Hbk).
      destruct (kid_sorted ea eb ka c kb H2 H3 Hs) as (Hcs & Hzl & Hzr & Hcb & Hbound).
      rewrite (IH h') with (lo := t_min t); try assumption; [|lia].
      f_equal. rewrite elements_split by assumption. symmetry. apply find_sorted_in_mid.
      * apply zipl_lt; assumption.
      * apply zipr_gt; assumption.
Qed.

(* ---------------------------------------------------------------- wf_b reflects wf *)


Lemma wf_node_sound : forall h isroot n,
  wf_node t h isroot n = true -> wfn (if isroot then root_lo n else t_min t) h n.
Proof.
  induction h as [|h IH]; intros isroot [lf es ks]; cbn [wf_node]; intros H.
  { rewrite andb_false_r in H. discriminate. }
  apply andb_true_iff in H as (H12 & H3). apply andb_true_iff in H12 as (H1 & H2).
  apply Nat.leb_le in H1. apply orb_true_iff in H2.
  destruct lf.
  - apply andb_true_iff in H3 as (Hh & Hk). apply Nat.eqb_eq in Hh. subst h.
    destruct ks; [|discriminate]. constructor. unfold root_lo. cbn [n_leaf].
    destruct H2 as [Hr|H2]; [subst isroot; lia|]. apply Nat.leb_le in H2. destruct isroot; lia.
  - apply andb_true_iff in H3 as (H3 & Hall). apply andb_true_iff in H3 as (H3 & Hk).
    apply andb_true_iff in H3 as (Hh & H1'). apply Nat.leb_le in H1'. apply Nat.eqb_eq in Hk.
    constructor; [|assumption|].
    + unfold root_lo. cbn [n_leaf]. destruct H2 as [Hr|H2]; [subst isroot; lia|]. apply Nat.leb_le in H2. destruct isroot; lia.
    + rewrite forallb_forall in Hall. apply Forall_forall. intros c Hc. apply (IH false c). now apply Hall.
Qed.

Lemma wf_node_complete : forall (h : nat) (isroot : bool) (n : tree),
  wfn (if isroot then root_lo n else t_min t) h n -> wf_node t h isroot n = true.
Proof.
  induction h as [|h IH]; intros isroot [lf es ks] H.
  { pose proof (wfn_pos t Ht _ _ _ H). lia. }
  apply wfn_inv in H as (Hb & [(-> & Hh & ->)|(-> & h' & Hh & Hk & Hall)]); cbn [wf_node].
  - inversion Hh; subst h. unfold root_lo in Hb. cbn [n_leaf] in Hb.
    rewrite !andb_true_iff, orb_true_iff, !Nat.leb_le, Nat.eqb_eq. repeat split; try lia.
    destruct isroot; [now left|right; lia].
  - inversion Hh; subst h'. unfold root_lo in Hb. cbn [n_leaf] in Hb.
    assert (1 <= t_min t)%nat by (unfold t_min; lia).
    rewrite !andb_true_iff, orb_true_iff, !Nat.leb_le, Nat.eqb_eq, negb_true_iff, Nat.eqb_neq.
    repeat split; try lia.
    + destruct isroot; [now left|right; lia].
    + destruct ks as [|c ks]; [discriminate|]. inversion Hall; subst.
      match goal with H : BTreeWf.wfn _ _ h c |- _ => pose proof (wfn_pos t Ht _ _ _ H) end. lia.
    + destruct isroot; lia.
    + apply forallb_forall. intros c Hc. rewrite Forall_forall in Hall. apply (IH false c). now apply Hall.
Qed.

End LOOKUP.

(* the property-level invariant: a well-formed, key-sorted B-tree with parameter t *)
Definition wf (t : nat) (n : tree) : Prop :=
  (3 <= t)%nat /\ (exists h, wfr t h n) /\ ksorted (elements n).

Theorem wf_b_iff t n : wf_b t n = true <-> wf t n.
Proof.
  unfold wf_b, wf. rewrite !andb_true_iff, Nat.leb_le, sorted_keys_iff. split.
  - intros ((Ht & Hn) & Hs). repeat split; try assumption. exists (depth n).
    apply (wf_node_sound t Ht (depth n) true n Hn).
  - intros (Ht & (h & Hw) & Hs). repeat split; try assumption.
    unfold wfr in Hw. rewrite (wfn_depth t _ _ _ Hw). now apply (wf_node_complete t Ht h true n).
Qed.
