(* Round trips of the hand codecs that contain names (HIP, IPSECKEY, AMTRELAY, SVCB/HTTPS) for an
   arbitrary origin: generic in what is required of a name so that get_name gives it back
   (Section variables as in SchemaCodec.RoundTrip), instantiated for an absolute origin. *)
From DV Require Import Base.Prelude Model.NameM Model.SchemaM Model.SchemaHand
  Proofs.SchemaName Proofs.SchemaCodec Proofs.SchemaThm Proofs.SchemaFix Proofs.SchemaReenc Proofs.SchemaHandThm Proofs.SchemaOrigin.
Open Scope Z_scope.
Ltac Zify.zify_post_hook ::= Z.to_euclidean_division_equations.
#[local] Arguments be_encode : simpl never.
#[local] Arguments pow256 : simpl never.
Ltac list_eq' := rewrite <- ?app_assoc; reflexivity.

Section HandOrigin.
  Variable o : option name.
  Variable NOK : bool -> name -> Prop.
  Hypothesis Hname : forall rel n b A R P,
    NOK rel n -> NameM.to_wire n o false = Ok b ->
    get_name (A ++ b ++ R ++ P) o rel (length A + length b + length R) (length A)
    = Ok (n, (length A + length b)%nat).

  Definition gw_nok (g : val) : Prop := match g with VS (VN n) => NOK true n | _ => True end.
  Definition hip_nok (vs : list val) : Prop :=
    match vs with [_; _; _; VL srv] => Forall (nok_row NOK [FName true]) srv | _ => True end.
  Definition ipseckey_nok (vs : list val) : Prop := match vs with [_; _; _; gw; _] => gw_nok gw | _ => True end.
  Definition amtrelay_nok (vs : list val) : Prop := match vs with [_; _; _; gw] => gw_nok gw | _ => True end.

Theorem hip_roundtrip_gen : forall vs b A P,
  hip_nok vs ->
  hand_encode_rdata HHip o vs = Ok b ->
  hand_decode_rdata HHip o (A ++ b ++ P) (length A) (length b) = Ok vs.
Proof.
  intros vs b A P Hnok He. unfold hand_encode_rdata in He. cbn [hand_valid hand_enc] in He.
  destruct (hip_valid vs) eqn:Hv; [|discriminate].
  unfold hip_valid in Hv.
  destruct vs as [|[[ | hit | ]|] [|[[alg | | ]|] [|[[ | key | ]|] [|[|srv] [|]]]]]; try discriminate.
  cbn [hip_enc] in He.
  destruct ((zlen hit <? 256) && (0 <=? alg) && (alg <? 256) && (zlen key <? 65536)) eqn:Hr; [|discriminate].
  inv_bind He. apply Ok_inj in He. subst b. rename x into s.
  apply andb_prop in Hr as [Hr Hk]. apply andb_prop in Hr as [Hr Ha2]. apply andb_prop in Hr as [Hh Ha1].
  apply andb_prop in Hv as [Hv Hsrv].
  pose proof (zlen_nonneg hit). pose proof (zlen_nonneg key).
  unfold hand_decode_rdata.
  repeat match goal with |- context [Nat.ltb ?a ?b] =>
    destruct (Nat.ltb_spec a b) as [Hx|_]; [exfalso; rewrite ?app_length in Hx; lia|] end.
  cbv zeta. cbn [hand_dec hand_valid]. unfold hip_dec.
  set (b1 := be_encode 1 (zlen hit)). set (b2 := be_encode 1 alg). set (b3 := be_encode 2 (zlen key)).
  assert (L1 : length b1 = 1%nat) by apply be_encode_length.
  assert (L2 : length b2 = 1%nat) by apply be_encode_length.
  assert (L3 : length b3 = 2%nat) by apply be_encode_length.
  rewrite (get_u_at _ _ _ 1 (zlen hit) A (b2 ++ b3 ++ hit ++ key ++ s) P)
    by (try (subst b1 b2 b3; list_eq'); try (rewrite pow256_1; lia); rewrite ?app_length; lia).
  cbn [bind fst snd].
  rewrite (get_u_at _ _ _ 1 alg (A ++ b1) (b3 ++ hit ++ key ++ s) P)
    by (try (subst b1 b2 b3; list_eq'); try (rewrite pow256_1; lia); rewrite ?app_length; lia).
  cbn [bind fst snd].
  rewrite (get_u_at _ _ _ 2 (zlen key) ((A ++ b1) ++ b2) (hit ++ key ++ s) P)
    by (try (subst b1 b2 b3; list_eq'); try (rewrite pow256_2; lia); rewrite ?app_length; lia).
  cbn [bind fst snd].
  replace (Z.to_nat (zlen hit)) with (length hit) by (unfold zlen; lia).
  replace (Z.to_nat (zlen key)) with (length key) by (unfold zlen; lia).
  rewrite (gb_at' _ _ _ _ (((A ++ b1) ++ b2) ++ b3) hit (key ++ s) P)
    by (try (subst b1 b2 b3; list_eq'); rewrite ?app_length; lia).
  cbn [bind fst snd].
  rewrite (gb_at' _ _ _ _ ((((A ++ b1) ++ b2) ++ b3) ++ hit) key s P)
    by (try (subst b1 b2 b3; list_eq'); rewrite ?app_length; lia).
  cbn [bind fst snd].
  pose proof (dec_rows_rt o NOK Hname [FName true] srv s
                (S (length s)) (((((A ++ b1) ++ b2) ++ b3) ++ hit) ++ key) P) as Hrows.
  replace ((((((A ++ b1) ++ b2) ++ b3) ++ hit) ++ key) ++ s ++ P)
    with (A ++ (b1 ++ b2 ++ b3 ++ hit ++ key ++ s) ++ P) in Hrows by list_eq'.
  replace (length (((((A ++ b1) ++ b2) ++ b3) ++ hit) ++ key) + length s)%nat
    with (length A + length (b1 ++ b2 ++ b3 ++ hit ++ key ++ s))%nat in Hrows by (rewrite ?app_length; lia).
  replace (length (((((A ++ b1) ++ b2) ++ b3) ++ hit) ++ key))
    with (length ((((A ++ b1) ++ b2) ++ b3) ++ hit) + length key)%nat in Hrows by (rewrite ?app_length; lia).
  replace (length A + length (b1 ++ b2 ++ b3 ++ hit ++ key ++ s) - (length ((((A ++ b1) ++ b2) ++ b3) ++ hit) + length key))%nat
    with (length s) by (rewrite ?app_length; lia).
  rewrite Hrows; try assumption; try discriminate; try reflexivity; try lia.
  cbn [bind fst snd].
  assert (Hval : hip_valid [VS (VB hit); VS (VI alg); VS (VB key); VL srv] = true).
  { unfold hip_valid. rewrite Hv, Hsrv. reflexivity. }
  rewrite Hval. cbn [negb]. rewrite Nat.eqb_refl. reflexivity.
Qed.


Lemma gw_rt_gen : forall gt g b A R P,
  gw_nok g -> gw_valid gt g = true -> gw_enc o g = Ok b ->
  gw_dec (A ++ b ++ R ++ P) o gt (length A + length b + length R) (length A)
  = Ok (g, (length A + length b)%nat).
Proof.
  intros gt g b A R P Hnok Hv He. unfold gw_dec.
  destruct g as [[z|x|n]|rows]; cbn [gw_valid gw_enc] in Hv, He; try discriminate.
  - (* address octets *)
    apply Ok_inj in He. subst b.
    apply orb_prop in Hv as [Hv|Hv]; apply andb_prop in Hv as [Hg Hl];
      apply Z.eqb_eq in Hg; apply Nat.eqb_eq in Hl; subst gt.
    + cbn [Z.eqb]. rewrite <- Hl. rewrite gb_at. reflexivity.
    + cbn [Z.eqb]. rewrite <- Hl. rewrite gb_at. reflexivity.
  - (* name *)
    apply andb_prop in Hv as [Hg Hn]. apply Z.eqb_eq in Hg. subst gt. cbn [Z.eqb].
    rewrite (Hname true n b A R P); [reflexivity|exact Hnok|exact He].
  - (* none *)
    destruct rows; [|discriminate]. apply Z.eqb_eq in Hv. subst gt. cbn [Z.eqb].
    apply Ok_inj in He. subst b. cbn [length]. rewrite Nat.add_0_r. reflexivity.
Qed.

Lemma gw_rt_gen' : forall W endp cur gt g b A R P,
  W = A ++ b ++ R ++ P -> endp = (length A + length b + length R)%nat -> cur = length A ->
  gw_nok g -> gw_valid gt g = true -> gw_enc o g = Ok b ->
  gw_dec W o gt endp cur = Ok (g, (length A + length b)%nat).
Proof. intros; subst. apply gw_rt_gen; assumption. Qed.


Theorem ipseckey_roundtrip_gen : forall vs b A P,
  ipseckey_nok vs ->
  hand_encode_rdata HIpseckey o vs = Ok b ->
  hand_decode_rdata HIpseckey o (A ++ b ++ P) (length A) (length b) = Ok vs.
Proof.
  intros vs b A P Hnok He. unfold hand_encode_rdata in He. cbn [hand_valid hand_enc] in He.
  destruct (ipseckey_valid vs) eqn:Hv; [|discriminate].
  unfold ipseckey_valid in Hv.
  destruct vs as [|[[prec| | ]|] [|[[gt | | ]|] [|[[alg | | ]|] [|gw [|[[ | key | ]|] [|]]]]]]; try discriminate.
  cbn [ipseckey_enc] in He.
  apply andb_prop in Hv as [Hv Hgw]. rewrite Hv in He.
  apply andb_prop in Hv as [Hv Ha]. apply andb_prop in Hv as [Hp Hg].
  inv_bind He. apply Ok_inj in He. subst b. rename x into g.
  unfold hand_decode_rdata.
  repeat match goal with |- context [Nat.ltb ?a ?b] =>
    destruct (Nat.ltb_spec a b) as [Hx|_]; [exfalso; rewrite ?app_length in Hx; lia|] end.
  cbv zeta. cbn [hand_dec hand_valid]. unfold ipseckey_dec.
  set (b1 := be_encode 1 prec). set (b2 := be_encode 1 gt). set (b3 := be_encode 1 alg).
  assert (L1 : length b1 = 1%nat) by apply be_encode_length.
  assert (L2 : length b2 = 1%nat) by apply be_encode_length.
  assert (L3 : length b3 = 1%nat) by apply be_encode_length.
  rewrite (get_u_at _ _ _ 1 prec A (b2 ++ b3 ++ g ++ key) P)
    by (try (subst b1 b2 b3; list_eq'); try (apply u8_ok_range; assumption); rewrite ?app_length; lia).
  cbn [bind fst snd].
  rewrite (get_u_at _ _ _ 1 gt (A ++ b1) (b3 ++ g ++ key) P)
    by (try (subst b1 b2 b3; list_eq'); try (apply u8_ok_range; assumption); rewrite ?app_length; lia).
  cbn [bind fst snd].
  rewrite (get_u_at _ _ _ 1 alg ((A ++ b1) ++ b2) (g ++ key) P)
    by (try (subst b1 b2 b3; list_eq'); try (apply u8_ok_range; assumption); rewrite ?app_length; lia).
  cbn [bind fst snd].
  rewrite (gw_rt_gen' _ _ _ gt gw g (((A ++ b1) ++ b2) ++ b3) key P)
    by (try assumption; try exact Hnok; try (subst b1 b2 b3; list_eq'); rewrite ?app_length; lia).
  cbn [bind fst snd].
  rewrite (gb_at' _ _ _ _ ((((A ++ b1) ++ b2) ++ b3) ++ g) key [] P)
    by (try (subst b1 b2 b3; list_eq'); rewrite ?app_length; cbn [length]; lia).
  cbn [bind fst snd].
  assert (Hval : ipseckey_valid [VS (VI prec); VS (VI gt); VS (VI alg); gw; VS (VB key)] = true).
  { unfold ipseckey_valid. rewrite Hp, Hg, Ha, Hgw. reflexivity. }
  rewrite Hval. cbn [negb].
  replace (length ((((A ++ b1) ++ b2) ++ b3) ++ g) + length key)%nat
    with (length A + length (b1 ++ b2 ++ b3 ++ g ++ key))%nat by (rewrite ?app_length; lia).
  rewrite Nat.eqb_refl. reflexivity.
Qed.

(* ------------------------------------------------------------------ AMTRELAY *)
Theorem amtrelay_roundtrip_gen : forall vs b A P,
  amtrelay_nok vs ->
  hand_encode_rdata HAmtrelay o vs = Ok b ->
  hand_decode_rdata HAmtrelay o (A ++ b ++ P) (length A) (length b) = Ok vs.
Proof.
  intros vs b A P Hnok He. unfold hand_encode_rdata in He. cbn [hand_valid hand_enc] in He.
  destruct (amtrelay_valid vs) eqn:Hv; [|discriminate].
  unfold amtrelay_valid in Hv.
  destruct vs as [|[[prec| | ]|] [|[[d | | ]|] [|[[ty | | ]|] [|gw [|]]]]]; try discriminate.
  cbn [amtrelay_enc] in He.
  apply andb_prop in Hv as [Hv Hgw]. apply andb_prop in Hv as [Hv Ht]. apply andb_prop in Hv as [Hp Hd].
  (* the relay type of a valid gateway is 0..3 *)
  assert (Hty : 0 <= ty <= 3).
  { destruct gw as [[z|x|n]|rows]; cbn [gw_valid] in Hgw; try discriminate.
    - apply orb_prop in Hgw as [H|H]; apply andb_prop in H as [H _]; lia.
    - apply andb_prop in Hgw as [H _]. lia.
    - destruct rows; [lia|discriminate]. }
  assert (Hdd : d = 0 \/ d = 1) by lia.
  assert (Hu : u8_ok (ty + 128 * d) = true) by (unfold u8_ok; lia).
  rewrite Hp, Hu in He. cbn [andb] in He.
  inv_bind He. apply Ok_inj in He. subst b. rename x into g.
  unfold hand_decode_rdata.
  repeat match goal with |- context [Nat.ltb ?a ?b] =>
    destruct (Nat.ltb_spec a b) as [Hx|_]; [exfalso; rewrite ?app_length in Hx; lia|] end.
  cbv zeta. cbn [hand_dec hand_valid]. unfold amtrelay_dec.
  set (b1 := be_encode 1 prec). set (b2 := be_encode 1 (ty + 128 * d)).
  assert (L1 : length b1 = 1%nat) by apply be_encode_length.
  assert (L2 : length b2 = 1%nat) by apply be_encode_length.
  rewrite (get_u_at _ _ _ 1 prec A (b2 ++ g) P)
    by (try (subst b1 b2; list_eq'); try (apply u8_ok_range; assumption); rewrite ?app_length; lia).
  cbn [bind fst snd].
  rewrite (get_u_at _ _ _ 1 (ty + 128 * d) (A ++ b1) g P)
    by (try (subst b1 b2; list_eq'); try (apply u8_ok_range; assumption); rewrite ?app_length; lia).
  cbn [bind fst snd].
  replace ((ty + 128 * d) mod 128) with ty by lia.
  replace ((ty + 128 * d) / 128) with d by lia.
  rewrite (gw_rt_gen' _ _ _ ty gw g ((A ++ b1) ++ b2) [] P)
    by (try assumption; try exact Hnok; try (subst b1 b2; list_eq'); rewrite ?app_length; cbn [length]; lia).
  cbn [bind fst snd].
  assert (Hval : amtrelay_valid [VS (VI prec); VS (VI d); VS (VI ty); gw] = true).
  { unfold amtrelay_valid. rewrite Hp, Hd, Ht, Hgw. reflexivity. }
  rewrite Hval. cbn [negb].
  replace (length ((A ++ b1) ++ b2) + length g)%nat
    with (length A + length (b1 ++ b2 ++ g))%nat by (rewrite ?app_length; lia).
  rewrite Nat.eqb_refl. reflexivity.
Qed.


Theorem svcb_roundtrip_gen : forall prio target ps b A P,
  NOK true target -> (prio <> 0 \/ ps = []) ->
  hand_encode_rdata HSvcb o [VS (VI prio); VS (VN target); VL ps] = Ok b ->
  hand_decode_rdata HSvcb o (A ++ b ++ P) (length A) (length b) = Ok [VS (VI prio); VS (VN target); VL ps].
Proof.
  intros prio target ps b A P Hnok Halias He. unfold hand_encode_rdata in He. cbn [hand_valid hand_enc] in He.
  destruct (svcb_valid [VS (VI prio); VS (VN target); VL ps]) eqn:Hv; [|discriminate].
  pose proof Hv as Hv0. unfold svcb_valid in Hv.
  apply andb_prop in Hv as [Hv Hrec]. apply andb_prop in Hv as [Hv Hasc]. apply andb_prop in Hv as [Hv Hrows].
  apply andb_prop in Hv as [Hv Hnm]. apply andb_prop in Hv as [Hp0 Hp1].
  cbn [svcb_enc] in He.
  destruct ((0 <=? prio) && (prio <? 65536)) eqn:Hrng; [|discriminate].
  inv_bind He. inv_bind He. apply Ok_inj in He. subst b. rename x into t, x0 into p.
  unfold hand_decode_rdata.
  repeat match goal with |- context [Nat.ltb ?a ?b] =>
    destruct (Nat.ltb_spec a b) as [Hx|_]; [exfalso; rewrite ?app_length in Hx; lia|] end.
  cbv zeta. cbn [hand_dec hand_valid]. unfold svcb_dec.
  set (b1 := be_encode 2 prio). assert (L1 : length b1 = 2%nat) by apply be_encode_length.
  rewrite (get_u_at _ _ _ 2 prio A (t ++ p) P)
    by (try (subst b1; list_eq'); try (rewrite pow256_2; lia); rewrite ?app_length; lia).
  cbn [bind fst snd].
  pose proof (Hname true target t (A ++ b1) p P Hnok E) as Hn.
  replace ((A ++ b1) ++ t ++ p ++ P) with (A ++ (b1 ++ t ++ p) ++ P) in Hn by list_eq'.
  replace (length (A ++ b1) + length t + length p)%nat with (length A + length (b1 ++ t ++ p))%nat in Hn
    by (rewrite ?app_length; lia).
  replace (length (A ++ b1)) with (length A + 2)%nat in Hn by (rewrite app_length; lia).
  rewrite Hn. cbn [bind fst snd].
  assert (Hplen : ps = [] -> p = []).
  { intros ->. cbn in E0. apply Ok_inj in E0. auto. }
  assert (Hal : (prio =? 0) && negb (Nat.eqb (length A + length (b1 ++ t ++ p) - (length A + 2 + length t)) 0) = false).
  { destruct Halias as [Hne|Hnil].
    - destruct (prio =? 0) eqn:E1; [lia|reflexivity].
    - rewrite (Hplen Hnil). rewrite !app_length. cbn [length].
      replace (length A + (length b1 + (length t + 0)) - (length A + 2 + length t))%nat with 0%nat by lia.
      cbn. apply andb_false_r. }
  rewrite Hal.
  pose proof (svcb_params_rt ps p (S (length p)) ((A ++ b1) ++ t) P (-1) Hrows Hasc E0 ltac:(lia)) as Hps.
  replace (((A ++ b1) ++ t) ++ p ++ P) with (A ++ (b1 ++ t ++ p) ++ P) in Hps by list_eq'.
  replace (length ((A ++ b1) ++ t) + length p)%nat with (length A + length (b1 ++ t ++ p))%nat in Hps
    by (rewrite ?app_length; lia).
  replace (length ((A ++ b1) ++ t)) with (length A + 2 + length t)%nat in Hps by (rewrite ?app_length; lia).
  replace (length A + length (b1 ++ t ++ p) - (length A + 2 + length t))%nat with (length p)
    by (rewrite ?app_length; lia).
  rewrite Hps. cbn [bind fst snd].
  rewrite (dedupe_last_asc ps (-1) Hrows Hasc).
  rewrite Hv0. cbn [negb]. rewrite Nat.eqb_refl. reflexivity.
Qed.

End HandOrigin.

(* ---------- an absolute origin ---------- *)
Theorem hip_roundtrip_origin_thm : forall o vs b A P,
  is_absolute o = true -> hip_nok (nok_origin o) vs ->
  hand_encode_rdata HHip (Some o) vs = Ok b ->
  hand_decode_rdata HHip (Some o) (A ++ b ++ P) (length A) (length b) = Ok vs.
Proof. intros o vs b A P Ho. apply hip_roundtrip_gen. apply hname_origin. exact Ho. Qed.

Theorem ipseckey_roundtrip_origin_thm : forall o vs b A P,
  is_absolute o = true -> ipseckey_nok (nok_origin o) vs ->
  hand_encode_rdata HIpseckey (Some o) vs = Ok b ->
  hand_decode_rdata HIpseckey (Some o) (A ++ b ++ P) (length A) (length b) = Ok vs.
Proof. intros o vs b A P Ho. apply ipseckey_roundtrip_gen. apply hname_origin. exact Ho. Qed.

Theorem amtrelay_roundtrip_origin_thm : forall o vs b A P,
  is_absolute o = true -> amtrelay_nok (nok_origin o) vs ->
  hand_encode_rdata HAmtrelay (Some o) vs = Ok b ->
  hand_decode_rdata HAmtrelay (Some o) (A ++ b ++ P) (length A) (length b) = Ok vs.
Proof. intros o vs b A P Ho. apply amtrelay_roundtrip_gen. apply hname_origin. exact Ho. Qed.

Theorem svcb_roundtrip_origin_thm : forall o prio target ps b A P,
  is_absolute o = true -> nok_origin o true target -> (prio <> 0 \/ ps = []) ->
  hand_encode_rdata HSvcb (Some o) [VS (VI prio); VS (VN target); VL ps] = Ok b ->
  hand_decode_rdata HSvcb (Some o) (A ++ b ++ P) (length A) (length b) = Ok [VS (VI prio); VS (VN target); VL ps].
Proof. intros o prio target ps b A P Ho. apply svcb_roundtrip_gen. apply hname_origin. exact Ho. Qed.

(* APL, LOC and OPT contain no origin-relative name (REPORTCHANNEL is read with get_name() without
   origin): their codecs do not depend on the origin at all, so the theorems stated for `None`
   hold for every origin *)
Theorem hand_origin_irrelevant_thm : forall h o wire cur rdlen vs,
  (h = HApl \/ h = HLoc \/ h = HOpt) ->
  hand_decode_rdata h o wire cur rdlen = hand_decode_rdata h None wire cur rdlen /\
  hand_encode_rdata h o vs = hand_encode_rdata h None vs.
Proof. intros h o wire cur rdlen vs [->|[->| ->]]; split; reflexivity. Qed.
