(* C09: layouts of one logical line - blanks, parentheses with embedded newlines, comments -
   lex to the same tokens; hence parenthesised multi-line and single-line records load alike. *)
From DV Require Import Base.Prelude Model.NameM Model.ZoneTextM Proofs.ZoneTextBase Proofs.ZoneTextLex
  Proofs.ZoneTextLines.
Open Scope Z_scope.

Inductive mpiece :=
| MSp (n : nat)              (* n blanks *)
| MTab                       (* a tab *)
| MNl                        (* a newline inside parentheses *)
| MOpen | MClose             (* ( and ) *)
| MTk (t : tok)
| MComNl (text : list Z)     (* "; text" and the newline that ends it, inside parentheses *)
| MComEnd (text : list Z).   (* a trailing "; text" (ended by the newline of the line) *)

Fixpoint mrender (ps : list mpiece) : list Z :=
  match ps with
  | [] => []
  | MSp n :: r => repeat 32 n ++ mrender r
  | MTab :: r => 9 :: mrender r
  | MNl :: r => 10 :: mrender r
  | MOpen :: r => 40 :: mrender r
  | MClose :: r => 41 :: mrender r
  | MTk t :: r => render_tok t ++ mrender r
  | MComNl text :: r => 59 :: text ++ 10 :: mrender r
  | MComEnd text :: r => 59 :: text ++ mrender r
  end.

Fixpoint mtoks (ps : list mpiece) : list tok :=
  match ps with
  | [] => []
  | MTk t :: r => t :: mtoks r
  | _ :: r => mtoks r
  end.

Definition no_nl (text : list Z) : bool := forallb (fun c => negb (c =? 10)) text.

(* what may directly follow an identifier: anything that starts with a delimiter *)
Definition delim_next (r : list mpiece) : bool :=
  match r with
  | [] => true
  | MSp (S _) :: _ | MTab :: _ | MNl :: _ | MOpen :: _ | MClose :: _ | MComNl _ :: _ | MComEnd _ :: _ => true
  | MTk (TQ _) :: _ => true
  | _ => false
  end.

(* depth = current parenthesis depth *)
Fixpoint mvalid (depth : nat) (ps : list mpiece) : bool :=
  match ps with
  | [] => match depth with O => true | _ => false end
  | MSp _ :: r | MTab :: r => mvalid depth r
  | MNl :: r => match depth with O => false | _ => mvalid depth r end
  | MOpen :: r => mvalid (S depth) r
  | MClose :: r => match depth with O => false | S d => mvalid d r end
  | MTk (TId v) :: r => id_clean v && delim_next r && mvalid depth r
  | MTk (TQ v) :: r => q_clean v && mvalid depth r
  | MComNl text :: r => no_nl text && match depth with O => false | _ => mvalid depth r end
  | MComEnd text :: r => no_nl text && match r, depth with [], O => true | _, _ => false end
  end.

Lemma lex_comment : forall text rest ml acc,
  no_nl text = true ->
  lex (text ++ 10 :: rest) ml MCom acc = lex (10 :: rest) ml MCom acc.
Proof.
  induction text as [|c text IH]; intros rest ml acc H; [reflexivity|].
  cbn [no_nl forallb] in H. apply andb_true_iff in H as [Hc H]. apply negb_true_iff in Hc.
  cbn [app lex]. rewrite Hc. apply IH. exact H.
Qed.

Lemma delim_next_head r rest : delim_next r = true ->
  exists d r', mrender r ++ 10 :: rest = d :: r' /\ is_delim d = true.
Proof.
  destruct r as [|p r]; cbn [delim_next]; intros H.
  - exists 10, rest. split; reflexivity.
  - destruct p as [[|k]| | | | |[v|v]|text|text]; try discriminate; cbn [mrender repeat app render_tok dquote];
      eexists _, _; split; reflexivity.
Qed.

Lemma lex_mrender : forall ps depth acc rest,
  mvalid depth ps = true ->
  lex (mrender ps ++ 10 :: rest) depth MSkip acc = (rev acc ++ mtoks ps, TEol, rest).
Proof.
  induction ps as [|p ps IH]; intros depth acc rest Hv.
  - cbn [mvalid] in Hv. destruct depth; [|discriminate].
    cbn [mrender app lex mtoks]. cbn [Z.eqb orb]. rewrite app_nil_r. reflexivity.
  - destruct p as [n| | | | |t|text|text]; cbn [mrender mtoks mvalid] in *.
    + rewrite <- app_assoc, lex_spaces. apply IH. exact Hv.
    + cbn [app lex]. cbn [Z.eqb orb]. apply IH. exact Hv.
    + destruct depth as [|d]; [discriminate|]. cbn [app lex]. cbn [Z.eqb orb]. apply IH. exact Hv.
    + cbn [app lex]. cbn [Z.eqb orb]. apply IH. exact Hv.
    + destruct depth as [|d]; [discriminate|]. cbn [app lex]. cbn [Z.eqb orb]. apply IH. exact Hv.
    + destruct t as [v|v].
      * apply andb_true_iff in Hv as [Hv Hr]. apply andb_true_iff in Hv as [Hc Hn].
        cbn [render_tok]. rewrite <- app_assoc.
        destruct (delim_next_head ps rest Hn) as (d & r' & Hd & Hdd).
        rewrite Hd, (lex_id v acc depth d r' Hc Hdd), <- Hd.
        rewrite (IH depth (TId v :: acc) rest Hr). cbn [rev]. rewrite <- app_assoc. reflexivity.
      * apply andb_true_iff in Hv as [Hc Hr].
        cbn [render_tok]. rewrite <- app_assoc, (lex_q v acc depth _ Hc).
        rewrite (IH depth (TQ v :: acc) rest Hr). cbn [rev]. rewrite <- app_assoc. reflexivity.
    + apply andb_true_iff in Hv as [Hn Hr]. destruct depth as [|d]; [discriminate|].
      change (lex ((59 :: text ++ 10 :: mrender ps) ++ 10 :: rest) (S d) MSkip acc)
        with (lex ((text ++ 10 :: mrender ps) ++ 10 :: rest) (S d) MCom acc).
      rewrite <- app_assoc. cbn [app].
      rewrite (lex_comment text _ (S d) acc Hn).
      change (lex (10 :: mrender ps ++ 10 :: rest) (S d) MCom acc) with (lex (mrender ps ++ 10 :: rest) (S d) MSkip acc).
      apply IH. exact Hr.
    + apply andb_true_iff in Hv as [Hn Hr]. destruct ps; [|discriminate]. destruct depth; [|discriminate].
      cbn [mrender mtoks]. rewrite !app_nil_r.
      change (lex ((59 :: text) ++ 10 :: rest) 0 MSkip acc) with (lex (text ++ 10 :: rest) 0 MCom acc).
      rewrite (lex_comment text rest 0 acc Hn). reflexivity.
Qed.

(* Two layouts of the same tokens are read alike: the reader sees a line only through its
   leading-blank flag and its tokens. *)
Theorem respell_layout_proof c s ps ps' rest f :
  mvalid 0 ps = true -> mvalid 0 ps' = true ->
  mtoks ps = mtoks ps' ->
  starts_ws (mrender ps ++ [10]) = starts_ws (mrender ps' ++ [10]) ->
  read_loop (S f) c s (mrender ps ++ 10 :: rest) = read_loop (S f) c s (mrender ps' ++ 10 :: rest).
Proof.
  intros Hv Hv' Ht Hl. cbn [read_loop].
  rewrite (lex_mrender ps 0 [] rest Hv), (lex_mrender ps' 0 [] rest Hv'). cbn [rev app].
  rewrite (starts_ws_any _ rest []), (starts_ws_any (mrender ps') rest []), Hl, Ht. reflexivity.
Qed.

(* the single-line layout of a token list: tokens separated by one blank *)
Fixpoint single_line (ts : list tok) : list mpiece :=
  match ts with
  | [] => []
  | [t] => [MTk t]
  | t :: r => MTk t :: MSp 1 :: single_line r
  end.

Lemma mtoks_single ts : mtoks (single_line ts) = ts.
Proof.
  induction ts as [|t ts IH]; [reflexivity|]. destruct ts as [|t' ts']; [reflexivity|].
  cbn [single_line mtoks] in *. rewrite IH. reflexivity.
Qed.

Lemma mvalid_single ts : forallb tok_clean ts = true -> mvalid 0 (single_line ts) = true.
Proof.
  induction ts as [|t ts IH]; [reflexivity|]. cbn [forallb]. intros H. apply andb_true_iff in H as [Ht Hr].
  destruct ts as [|t' ts'].
  - destruct t; cbn [single_line mvalid tok_clean delim_next] in *; rewrite Ht; reflexivity.
  - cbn [single_line mvalid] in *. specialize (IH Hr).
    destruct t; cbn [tok_clean delim_next] in *; rewrite Ht; cbn [andb]; exact IH.
Qed.

(* parenthesised multi-line versus single-line: any valid layout of the tokens (parentheses,
   embedded newlines, comments, extra blanks) that starts like the single-line form *)
Theorem respell_parens_proof c s ts ps rest f :
  forallb tok_clean ts = true ->
  mvalid 0 ps = true -> mtoks ps = ts ->
  starts_ws (mrender ps ++ [10]) = starts_ws (mrender (single_line ts) ++ [10]) ->
  read_loop (S f) c s (mrender ps ++ 10 :: rest) =
  read_loop (S f) c s (mrender (single_line ts) ++ 10 :: rest).
Proof.
  intros Hc Hv Ht Hl. apply respell_layout_proof; auto.
  - apply mvalid_single. exact Hc.
  - rewrite mtoks_single. exact Ht.
Qed.
