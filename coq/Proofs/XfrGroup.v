(* C13 - how dns.message (xfr=True) turns the records of an answer section into RRsets: from the
   first SOA record on, every record is its own RRset, in stream order (force_unique is sticky);
   before it, merging neither loses nor invents a record. *)
From DV Require Import Base.Prelude Model.XfrM Proofs.XfrSets Proofs.XfrSpec Proofs.XfrZone Proofs.XfrDiff
  Proofs.XfrSafety Proofs.XfrBasic Proofs.XfrRun Proofs.XfrIxfr Proofs.XfrAxfr Proofs.XfrPerm Proofs.XfrOrder
  Proofs.XfrFault Proofs.XfrGlue.

Lemma group_go_after_soa : forall x1 f acc r x2, r_type r = tSOA ->
  group_go f acc (x1 ++ r :: x2) = group_go f acc x1 ++ single r :: map single x2.
Proof.
  induction x1 as [|y x1 IH]; intros f acc r x2 Hr; cbn [app group_go].
  - rewrite Hr. cbn [Z.eqb tSOA Pos.eqb]. rewrite orb_true_r. rewrite group_go_true, <- app_assoc. reflexivity.
  - apply IH, Hr.
Qed.

(* stream order is preserved from the first SOA record of the section on *)
Theorem group_after_soa : forall f x1 r x2, r_type r = tSOA ->
  group f (x1 ++ r :: x2) = group f x1 ++ single r :: map single x2.
Proof. intros. unfold group. apply group_go_after_soa. assumption. Qed.

(* ---- merging keeps exactly the records received ---- *)
Definition tup (r : rr) : Z * Z * Z * Z * Z := (r_name r, r_class r, r_type r, r_covers r, r_data r).
Definition rs_tups (s : rrset) : list (Z * Z * Z * Z * Z) :=
  map (fun d => (s_name s, s_class s, s_type s, s_covers s, d)) (s_data s).
Definition tups (l : list rrset) : list (Z * Z * Z * Z * Z) := flat_map rs_tups l.

Lemma same_rrset_fields : forall r s, same_rrset r s = true ->
  r_name r = s_name s /\ r_class r = s_class s /\ r_type r = s_type s /\ r_covers r = s_covers s.
Proof.
  intros r s H. unfold same_rrset in H. rewrite !andb_true_iff, !Z.eqb_eq in H. tauto.
Qed.

Lemma tups_add_to : forall r acc t, is_singleton (r_type r) = false ->
  In t (tups (add_to r acc)) <-> t = tup r \/ In t (tups acc).
Proof.
  intros r acc t Hsg. induction acc as [|s acc IH]; cbn [add_to].
  - cbn. unfold tup. intuition.
  - destruct (same_rrset r s) eqn:E.
    + apply same_rrset_fields in E. destruct E as (E1 & E2 & E3 & E4).
      unfold tups. cbn [flat_map]. rewrite !in_app_iff. unfold rs_tups at 1 3. cbn [rrset_add s_name s_class s_type s_covers s_data].
      rewrite <- E3, (rds_add_plain _ _ _ Hsg).
      rewrite !in_map_iff. unfold tup. rewrite E1, E2, E4. split.
      * intros [[d [<- Hd]]|H]; [|auto]. apply ins_In in Hd. destruct Hd as [->|Hd]; [auto|].
        right. left. exists d. auto.
      * intros [->|[[d [<- Hd]]|H]]; [left; exists (r_data r); split; [reflexivity|apply ins_In; auto]| |auto].
        left. exists d. split; [reflexivity|apply ins_In; auto].
    + unfold tups in *. cbn [flat_map]. rewrite !in_app_iff, IH. tauto.
Qed.

(* records of the singleton types other than SOA (NXT, DNAME, NSEC, CNAME) replace each other when they
   are merged; for all other records: *)
Definition mergeable (r : rr) : Prop := r_type r = tSOA \/ is_singleton (r_type r) = false.

Lemma tups_group_go : forall x f acc t, Forall mergeable x ->
  In t (tups (group_go f acc x)) <-> In t (tups acc) \/ In t (map tup x).
Proof.
  induction x as [|r x IH]; intros f acc t Hm; cbn [group_go map In]; [tauto|].
  inversion Hm as [|? ? Hr Hm']; subst.
  rewrite IH by exact Hm'. destruct (f || (r_type r =? tSOA)) eqn:Ef.
  - unfold tups. rewrite flat_map_app, in_app_iff. cbn. unfold tup. intuition.
  - apply orb_false_iff in Ef. destruct Ef as [_ Ef]. apply Z.eqb_neq in Ef.
    destruct Hr as [Hr|Hr]; [congruence|]. rewrite (tups_add_to _ _ _ Hr). intuition.
Qed.

(* no record is lost, none is invented: the (owner, class, type, covers, rdata) tuples of the RRsets
   are exactly those of the records *)
Theorem group_keeps_records : forall f x t, Forall mergeable x ->
  In t (tups (group f x)) <-> In t (map tup x).
Proof. intros f x t Hm. unfold group. rewrite tups_group_go by exact Hm. cbn. tauto. Qed.

(* ---- consequence: surplus records after the final SOA of an AXFR, in the same message ---- *)
Lemma loopn_okrec : forall g x u rdt p tz ser s0, parse_ok_glue g -> Forall okrec x -> quiet tz ->
  loopn (ast u rdt p tz ser s0) (g x) = (ast u rdt p (addrs tz (g (erase x))) ser s0, None).
Proof.
  intros g x u rdt p tz ser s0 ((_ & G2 & _) & _ & G4) Hx Hq.
  apply (loopn_erase _ _ _ _ _ _ _ _ (G4 x) (G2 _ (erase_plain x Hx)) Hq).
Qed.

Lemma quiet_okrec : forall g x tz, parse_ok_glue g -> Forall okrec x -> quiet tz -> quiet (addrs tz (g (erase x))).
Proof.
  intros g x tz ((_ & G2 & _) & _ & _) Hx Hq. apply quiet_addrs; [apply G2, erase_plain, Hx|exact Hq].
Qed.

Lemma step_final_mid : forall u rdt p tz ser v,
  step Mid (ast u rdt p tz ser (single (soa_rr v))) (single (soa_rr v)) =
  (ast u rdt p tz ser (single (soa_rr v)), Some eAfterFinal).
Proof.
  intros u rdt p tz ser v. unfold step, ast. cbn [done txn incremental delmode soa set_delmode negb].
  change ((s_type (single (soa_rr v)) =? tSOA) && (s_name (single (soa_rr v)) =? origin)) with true. cbv iota.
  rewrite soa_eqb, Z.eqb_refl. cbn [andb orb negb].
  rewrite soa_serial_single. cbn [expecting incremental negb andb]. reflexivity.
Qed.

Lemma loop_app_error_mid : forall l1 s s1 y z l2 s' e,
  loopn s l1 = (s1, None) -> step Mid s1 y = (s', Some e) ->
  loop s (l1 ++ y :: z :: l2) = (s', Some e).
Proof.
  induction l1 as [|r l1 IH]; intros s s1 y z l2 s' e Hl Hy; cbn [app loopT loopn] in *.
  - inversion Hl; subst. rewrite Hy. reflexivity.
  - assert (E : match l1 ++ y :: z :: l2 with [] => Last | _ :: _ => Mid end = Mid) by (destruct l1; reflexivity).
    rewrite E. destruct (step Mid s r) as [sa [e0|]]; [discriminate|]. eapply IH; eassumption.
Qed.

(* the message that holds the final SOA followed by more records is rejected *)
Lemma loop_surplus : forall g c2 y x2 u rdt p tz ser v,
  parse_ok_glue g ->
  (forall x1 r x2, r_type r = tSOA -> g (x1 ++ r :: x2) = g x1 ++ single r :: map single x2) ->
  Forall okrec c2 -> quiet tz ->
  loop (ast u rdt p tz ser (single (soa_rr v))) (g (c2 ++ soa_rr v :: y :: x2)) =
  (ast u rdt p (addrs tz (g (erase c2))) ser (single (soa_rr v)), Some eAfterFinal).
Proof.
  intros g c2 y x2 u rdt p tz ser v Hg Hsplit Hc2 Hq.
  rewrite (Hsplit c2 (soa_rr v) (y :: x2) eq_refl). cbn [map].
  apply (loop_app_error_mid _ _ _ _ _ _ _ _ (loopn_okrec g c2 u rdt p tz ser _ Hg Hc2 Hq)).
  apply step_final_mid.
Qed.

Lemma split_single : forall x1 r x2, r_type r = tSOA ->
  map single (x1 ++ r :: x2) = map single x1 ++ single r :: map single x2.
Proof. intros. rewrite map_app. reflexivity. Qed.

(* messages of the body, then the message with the surplus *)
Lemma cont_full_surplus : forall wsA g a c2 y x2 wl ws3 rdt p tz ser v,
  parse_ok_glue g ->
  (forall x1 r x2, r_type r = tSOA -> g (x1 ++ r :: x2) = g x1 ++ single r :: map single x2) ->
  Forall (header_ok rdt) wsA -> header_ok rdt wl ->
  Forall okrec (a ++ concat (map w_records wsA)) -> Forall okrec c2 ->
  w_records wl = c2 ++ soa_rr v :: y :: x2 -> quiet tz ->
  exists n, cont false (loop (ast false rdt p tz ser (single (soa_rr v))) (g a)) (wsA ++ wl :: ws3)
            = (Error eAfterFinal p, n).
Proof.
  induction wsA as [|w wsA IH]; intros g a c2 y x2 wl ws3 rdt p tz ser v Hg Hsp Hh Hwl Ha Hc2 Hr Hq.
  - cbn [map concat] in Ha. rewrite app_nil_r in Ha.
    rewrite (loop_loopn _ _ _ (loopn_okrec g a false rdt p tz ser _ Hg Ha Hq)).
    cbn [cont app]. unfold ast at 1. cbn [done].
    rewrite drive_cons by reflexivity. unfold from_wire.
    rewrite process_running; [|apply running_ast|apply Hwl|apply Hwl]. cbn [m_answer].
    rewrite Hr, (loop_surplus (group false) c2 y x2 false rdt p _ ser v parse_group_ok_glue (group_after_soa false) Hc2 (quiet_okrec _ _ _ Hg Ha Hq)).
    cbn [cont pub ast]. eauto.
  - cbn [map concat] in Ha. apply Forall_app in Ha. destruct Ha as [Ha Hrest].
    rewrite (loop_loopn _ _ _ (loopn_okrec g a false rdt p tz ser _ Hg Ha Hq)).
    cbn [cont app]. unfold ast at 1. cbn [done].
    inversion Hh as [|? ? Hw Hws]; subst.
    rewrite drive_cons by reflexivity. unfold from_wire.
    rewrite process_running; [|apply running_ast|apply Hw|apply Hw]. cbn [m_answer].
    destruct (IH (group false) (w_records w) c2 y x2 wl ws3 rdt p (addrs tz (g (erase a))) ser v
                parse_group_ok_glue (group_after_soa false) Hws Hwl Hrest Hc2 Hr (quiet_okrec _ _ _ Hg Ha Hq)) as [n Hn].
    rewrite Hn. eauto.
Qed.

(* AXFR: the message that carries the final SOA carries more records after it (of any content, also
   of an RRset that occurred earlier in the same message): rejected, zone untouched *)
Theorem axfr_surplus_rejected : forall v B z0 ser wsA wl ws3 c2 y x2,
  Forall okrec B ->
  Forall (header_ok tAXFR) wsA -> header_ok tAXFR wl ->
  concat (map w_records wsA) ++ c2 = soa_rr v :: B ->
  w_records wl = c2 ++ soa_rr v :: y :: x2 ->
  match wsA with w :: _ => w_records w <> [] | [] => True end ->
  exists n, inbound_xfr z0 tAXFR ser false (wsA ++ wl :: ws3) = (Error eAfterFinal z0, n).
Proof.
  intros v B z0 ser wsA wl ws3 c2 y x2 HB HhA Hwl Hcat Hr Hfirst.
  unfold inbound_xfr, xfr_run. rewrite init_axfr. cbn [Z.eqb tAXFR tIXFR Pos.eqb].
  destruct wsA as [|w0 wsA].
  - cbn [map concat app] in *. subst c2. cbn [app] in Hr. rewrite drive_cons by reflexivity.
    rewrite (first_message_axfr z0 ser wl (soa_rr v) _ Hwl Hr) by (split; reflexivity).
    rewrite (loop_surplus (map single) B y x2 false tAXFR z0 [] (match ser with Some sv => sv | None => 0 end) v parse_single_ok_glue split_single HB quiet_nil).
    cbn [cont pub ast]. eauto.
  - cbn [map concat] in Hcat. destruct (w_records w0) as [|r0 a] eqn:Hr0; [congruence|].
    cbn [app] in Hcat. inversion Hcat as [[E0 Hcat']]. subst r0.
    inversion HhA as [|? ? Hw0 HhA']; subst.
    cbn [app]. rewrite drive_cons by reflexivity.
    rewrite (first_message_axfr z0 ser w0 (soa_rr v) a Hw0 Hr0) by (split; reflexivity).
    apply Forall_app in HB. destruct HB as [HB1 HB2].
    destruct (cont_full_surplus wsA (map single) a c2 y x2 wl ws3 tAXFR z0 [] (match ser with Some sv => sv | None => 0 end) v
                parse_single_ok_glue split_single HhA' Hwl HB1 HB2 Hr quiet_nil) as [n Hn].
    exists n. exact Hn.
Qed.
