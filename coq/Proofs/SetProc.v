(* Rdataset.processing_order (Model/SetM.v section Proc): whatever random.shuffle does - any
   function that rearranges its argument - the result is a rearrangement of the members, and for
   the prioritised types it is in non-decreasing priority order. *)
From Coq Require Import Permutation Sorted.
From DV Require Import Base.Prelude Model.SetM.
Open Scope Z_scope.

Section ProcProofs.
  Variable A : Type.
  Variable shuffle : list A -> list A.
  Variable prio : A -> Z.
  Hypothesis shuffle_perm : forall l, Permutation l (shuffle l).

  Notation tbl_add := (tbl_add A).
  Notation ptable := (ptable A prio).
  Notation grp := (grp A).

  (* ---------- the priority table ---------- *)

  Lemma grp_tbl_add k x t k' :
    grp (tbl_add k x t) k' = if k' =? k then grp t k' ++ [x] else grp t k'.
  Proof.
    unfold SetM.grp. induction t as [|[k0 l] r IH]; cbn.
    - rewrite (Z.eqb_sym k k'). destruct (k' =? k); reflexivity.
    - destruct (Z.eqb_spec k0 k) as [->|Hn]; cbn.
      + rewrite (Z.eqb_sym k k'). destruct (k' =? k); reflexivity.
      + destruct (Z.eqb_spec k0 k') as [->|Hn'].
        * destruct (Z.eqb_spec k' k); [congruence|reflexivity].
        * exact IH.
  Qed.

  Lemma keys_tbl_add k x t k' :
    In k' (map fst (tbl_add k x t)) <-> k' = k \/ In k' (map fst t).
  Proof.
    induction t as [|[k0 l] r IH]; cbn; [intuition|].
    destruct (Z.eqb_spec k0 k) as [->|Hn]; cbn; [intuition|]. rewrite IH. intuition.
  Qed.

  Lemma nodup_tbl_add k x t : NoDup (map fst t) -> NoDup (map fst (tbl_add k x t)).
  Proof.
    induction t as [|[k0 l] r IH]; cbn; intros H.
    - constructor; [intros []|constructor].
    - inversion H as [|? ? Hk Hr]; subst. destruct (Z.eqb_spec k0 k) as [->|Hn]; cbn.
      + constructor; assumption.
      + constructor; [|apply IH, Hr]. rewrite keys_tbl_add. intros [E|Hin]; [congruence|contradiction].
  Qed.

  Lemma ptable_gen : forall items t,
    NoDup (map fst t) ->
    let t' := fold_left (fun t x => tbl_add (prio x) x t) items t in
    NoDup (map fst t') /\
    (forall k, grp t' k = grp t k ++ filter (fun x => prio x =? k) items) /\
    (forall k, In k (map fst t') <-> In k (map fst t) \/ In k (map prio items)).
  Proof.
    induction items as [|x r IH]; intros t Hnd; cbn [fold_left].
    - cbn. split; [exact Hnd|]. split; [intros; now rewrite app_nil_r|intuition].
    - destruct (IH (tbl_add (prio x) x t) (nodup_tbl_add _ _ _ Hnd)) as (H1 & H2 & H3).
      cbv zeta in *. split; [exact H1|]. split.
      + intros k. rewrite H2, grp_tbl_add. cbn [filter].
        rewrite (Z.eqb_sym (prio x) k). destruct (k =? prio x); [now rewrite <- app_assoc|reflexivity].
      + intros k. rewrite H3, keys_tbl_add. cbn [map In]. intuition.
  Qed.

  Lemma ptable_spec items :
    NoDup (map fst (ptable items)) /\
    (forall k, grp (ptable items) k = filter (fun x => prio x =? k) items) /\
    (forall k, In k (map fst (ptable items)) <-> In k (map prio items)).
  Proof.
    destruct (ptable_gen items [] (NoDup_nil _)) as (H1 & H2 & H3). cbv zeta in *.
    split; [exact H1|]. split; [intros k; rewrite H2; reflexivity|].
    intros k. rewrite H3. cbn. intuition.
  Qed.

  (* ---------- sorted() ---------- *)

  Lemma insert_perm k l : Permutation (k :: l) (insert_z k l).
  Proof.
    induction l as [|x r IH]; cbn; [reflexivity|].
    destruct (k <=? x); [reflexivity|]. rewrite perm_swap. constructor. exact IH.
  Qed.

  Lemma sort_perm l : Permutation l (sort_z l).
  Proof.
    induction l as [|x r IH]; cbn; [constructor|].
    rewrite <- insert_perm. constructor. exact IH.
  Qed.

  Lemma insert_sorted k l : StronglySorted Z.le l -> StronglySorted Z.le (insert_z k l).
  Proof.
    induction 1 as [|x r Hs IH Hall]; cbn; [repeat constructor|].
    destruct (Z.leb_spec k x).
    - constructor; [constructor; assumption|].
      constructor; [assumption|]. eapply Forall_impl; [|exact Hall]. intros; cbn in *; lia.
    - constructor; [exact IH|].
      apply Forall_forall. intros y Hy.
      apply (Permutation_in _ (Permutation_sym (insert_perm k r))) in Hy.
      destruct Hy as [<-|Hy]; [lia|]. rewrite Forall_forall in Hall. apply Hall, Hy.
  Qed.

  Lemma sort_sorted l : StronglySorted Z.le (sort_z l).
  Proof. induction l as [|x r IH]; cbn; [constructor|apply insert_sorted, IH]. Qed.

  (* ---------- rearrangement ---------- *)

  Lemma perm_filter_split (f : A -> bool) l :
    Permutation (filter f l ++ filter (fun x => negb (f x)) l) l.
  Proof.
    induction l as [|x r IH]; cbn; [constructor|].
    destruct (f x); cbn; [constructor; exact IH|].
    rewrite <- Permutation_middle. constructor. exact IH.
  Qed.

  Lemma filter_filter_neq k k' l : k' <> k ->
    filter (fun x => prio x =? k') (filter (fun x => negb (prio x =? k)) l)
    = filter (fun x => prio x =? k') l.
  Proof.
    intros Hn. induction l as [|x r IH]; cbn; [reflexivity|].
    destruct (Z.eqb_spec (prio x) k) as [E|E]; cbn.
    - destruct (Z.eqb_spec (prio x) k'); [congruence|exact IH].
    - destruct (prio x =? k'); [f_equal|]; exact IH.
  Qed.

  Lemma flat_map_ext_in {B C} (f g : B -> list C) l :
    (forall a, In a l -> f a = g a) -> flat_map f l = flat_map g l.
  Proof.
    induction l as [|a l IH]; cbn; intros H; [reflexivity|]. rewrite H, IH; auto.
  Qed.

  Lemma flat_map_perm {B C} (f g : B -> list C) l :
    (forall a, Permutation (f a) (g a)) -> Permutation (flat_map f l) (flat_map g l).
  Proof.
    intros H. induction l as [|a l IH]; cbn; [constructor|]. apply Permutation_app; auto.
  Qed.

  Lemma perm_partition : forall keys items,
    NoDup keys -> (forall x, In x items -> In (prio x) keys) ->
    Permutation (flat_map (fun k => filter (fun x => prio x =? k) items) keys) items.
  Proof.
    induction keys as [|k ks IH]; intros items Hnd Hcov; cbn [flat_map].
    - destruct items as [|x r]; [constructor|]. exfalso. apply (Hcov x). left. reflexivity.
    - inversion Hnd as [|? ? Hk Hr]; subst.
      eapply perm_trans; [|apply (perm_filter_split (fun x => prio x =? k) items)].
      apply Permutation_app_head.
      eapply perm_trans; [|apply (IH (filter (fun x => negb (prio x =? k)) items) Hr)].
      + apply Permutation_refl'. apply flat_map_ext_in. intros k' Hk'.
        symmetry. apply filter_filter_neq. intros ->. contradiction.
      + intros x Hx. apply filter_In in Hx as [Hx Hp]. apply negb_true_iff, Z.eqb_neq in Hp.
        destruct (Hcov x Hx) as [E|Hin]; [congruence|exact Hin].
  Qed.

  (* ---------- the theorems ---------- *)

  Theorem priority_order_perm items : Permutation items (priority_order A shuffle prio items).
  Proof.
    unfold priority_order. destruct items as [|x [|y r]]; [|reflexivity|].
    - cbn. constructor.
    - set (items := x :: y :: r). destruct (ptable_spec items) as (Hnd & Hg & Hk).
      apply Permutation_sym.
      eapply perm_trans; [apply flat_map_perm; intros k; apply Permutation_sym, shuffle_perm|].
      eapply perm_trans; [apply Permutation_flat_map, Permutation_sym, sort_perm|].
      rewrite (flat_map_ext_in _ (fun k => filter (fun x => prio x =? k) items)) by (intros; apply Hg).
      apply perm_partition; [exact Hnd|]. intros z Hz. apply Hk, in_map, Hz.
  Qed.

  Definition le_prio (a b : A) : Prop := prio a <= prio b.

  Lemma ss_app (R : A -> A -> Prop) a b :
    StronglySorted R a -> StronglySorted R b -> (forall x y, In x a -> In y b -> R x y) ->
    StronglySorted R (a ++ b).
  Proof.
    induction 1 as [|x a Ha IH Hall]; intros Hb Hab; cbn; [exact Hb|].
    constructor.
    - apply IH; [exact Hb|]. intros; apply Hab; [right|]; assumption.
    - apply Forall_app. split; [exact Hall|].
      apply Forall_forall. intros y Hy. apply Hab; [left; reflexivity|exact Hy].
  Qed.

  Lemma const_prio_sorted k l : (forall x, In x l -> prio x = k) -> StronglySorted le_prio l.
  Proof.
    induction l as [|x r IH]; intros H; constructor.
    - apply IH. intros; apply H; right; assumption.
    - apply Forall_forall. intros y Hy. unfold le_prio.
      rewrite (H x (or_introl eq_refl)), (H y (or_intror Hy)). lia.
  Qed.

  Lemma blocks_sorted (f : Z -> list A) : forall ks,
    StronglySorted Z.le ks -> (forall k x, In x (f k) -> prio x = k) ->
    StronglySorted le_prio (flat_map f ks).
  Proof.
    induction 1 as [|k ks Hs IH Hall]; intros Hf; cbn; [constructor|].
    apply ss_app; [eapply const_prio_sorted; intros; eapply Hf; eassumption|apply IH, Hf|].
    intros x y Hx Hy. apply in_flat_map in Hy as (k' & Hk' & Hy).
    unfold le_prio. rewrite (Hf _ _ Hx), (Hf _ _ Hy).
    rewrite Forall_forall in Hall. apply Hall, Hk'.
  Qed.

  Theorem priority_order_sorted items : StronglySorted le_prio (priority_order A shuffle prio items).
  Proof.
    unfold priority_order. destruct items as [|x [|y r]].
    - cbn. constructor.
    - repeat constructor.
    - set (items := x :: y :: r). destruct (ptable_spec items) as (Hnd & Hg & Hk).
      apply blocks_sorted; [apply sort_sorted|].
      intros k z Hz. apply (Permutation_in _ (Permutation_sym (shuffle_perm _))) in Hz.
      rewrite Hg in Hz. apply filter_In in Hz as [_ Hz]. apply Z.eqb_eq, Hz.
  Qed.

  (* Rdataset.processing_order *)
  Theorem processing_order_perm by_priority items :
    Permutation items (processing_order A shuffle prio by_priority items).
  Proof.
    unfold processing_order. destruct items as [|x r]; [constructor|].
    destruct by_priority; [apply priority_order_perm|apply shuffle_perm].
  Qed.

  Theorem processing_order_sorted items :
    StronglySorted le_prio (processing_order A shuffle prio true items).
  Proof.
    unfold processing_order. destruct items as [|x r]; [constructor|apply priority_order_sorted].
  Qed.
End ProcProofs.

(* ---------- weighted_processing_order (SRV, URI) ---------- *)
Section WeightedProofs.
  Variable A : Type.
  Variable uniform : Z -> Z.
  Variable prio : A -> Z.
  Variable weight : A -> Z.

  Lemma wpick_perm : forall l r x rest,
    wpick A weight r l = Some (x, rest) -> Permutation l (x :: rest).
  Proof.
    induction l as [|a l IH]; intros r x rest; cbn [wpick]; [discriminate|].
    destruct l as [|b t].
    - intros E; inversion E; subst. reflexivity.
    - destruct (sweight A weight a >? r).
      + intros E; inversion E; subst. reflexivity.
      + destruct (wpick A weight (r - sweight A weight a) (b :: t)) as [[y rest']|] eqn:Ep; [|discriminate].
        intros E; inversion E; subst.
        eapply perm_trans; [apply perm_skip, (IH _ _ _ Ep)|apply perm_swap].
  Qed.

  Lemma wextract_loop_perm : forall fuel total l,
    Permutation l (wextract_loop A uniform weight fuel total l).
  Proof.
    induction fuel as [|f IH]; intros total l; destruct l as [|a [|b t]]; cbn [wextract_loop];
      try reflexivity.
    destruct (wpick A weight (uniform total) (a :: b :: t)) as [[x rest]|] eqn:Ep; [|reflexivity].
    rewrite (wpick_perm _ _ _ _ Ep). constructor. apply IH.
  Qed.

  Lemma wextract_perm l : Permutation l (wextract A uniform weight l).
  Proof. apply wextract_loop_perm. Qed.

  (* whatever random.uniform returns, weighted_processing_order yields a rearrangement of the
     records in non-decreasing priority order *)
  Theorem weighted_order_perm items :
    Permutation items (weighted_order A uniform prio weight items).
  Proof. apply priority_order_perm. apply wextract_perm. Qed.

  Theorem weighted_order_sorted items :
    StronglySorted (le_prio A prio) (weighted_order A uniform prio weight items).
  Proof. apply priority_order_sorted. apply wextract_perm. Qed.

  (* with r = 0 every draw takes the first record: the members keep their order inside a
     priority (used by the correspondence) *)
End WeightedProofs.
