(* C11 - invariants of the version bookkeeping model (Model/VersM.v), for all histories. *)
From DV Require Import Base.Prelude Model.VersM.
From Coq Require Import Sorting.Sorted.
Import VersM.

Local Open Scope Z_scope.

(* ------------------------------------------------------------------ small list facts *)

Lemma last_opt_cons2 {A} (a b : A) (l : list A) : last_opt (a :: b :: l) = last_opt (b :: l).
Proof. reflexivity. Qed.

Lemma last_opt_app {A} (l : list A) (x : A) : last_opt (l ++ [x]) = Some x.
Proof.
  induction l as [|a l IH]; [reflexivity|].
  cbn [app]. destruct (l ++ [x]) eqn:E.
  - destruct l; discriminate.
  - rewrite last_opt_cons2. exact IH.
Qed.

Lemma last_opt_none {A} (l : list A) : last_opt l = None -> l = [].
Proof.
  induction l as [|a l IH]; [reflexivity|].
  cbn. destruct l; [discriminate|]. intros H. specialize (IH H). discriminate.
Qed.

Lemma last_opt_some {A} (l : list A) (x : A) : last_opt l = Some x -> exists l', l = l' ++ [x].
Proof.
  induction l as [|a l IH]; [discriminate|].
  cbn. destruct l as [|b l].
  - intros H; inversion H; subst. exists []. reflexivity.
  - intros H. destruct (IH H) as [l' E]. exists (a :: l'). rewrite E. reflexivity.
Qed.

Lemma last_opt_in {A} (l : list A) (x : A) : last_opt l = Some x -> In x l.
Proof.
  intros H. destruct (last_opt_some _ _ H) as [l' ->]. apply in_or_app. right. left. reflexivity.
Qed.

Lemma last_opt_app_r {A} (d l : list A) : l <> [] -> last_opt (d ++ l) = last_opt l.
Proof.
  intros Hl. induction d as [|a d IH]; [reflexivity|].
  cbn [app]. destruct (d ++ l) eqn:E.
  - destruct d; [cbn in E; congruence | discriminate].
  - rewrite last_opt_cons2. exact IH.
Qed.

Lemma min_list_le x l : min_list x l <= x.
Proof.
  revert x. induction l as [|y l IH]; intros x; cbn; [lia|].
  specialize (IH (Z.min x y)). lia.
Qed.

Lemma min_list_le_in x l y : In y l -> min_list x l <= y.
Proof.
  revert x. induction l as [|z l IH]; intros x; cbn; [tauto|].
  intros [->|H].
  - pose proof (min_list_le (Z.min x y) l). lia.
  - apply IH. exact H.
Qed.

Lemma min_list_in x l : min_list x l = x \/ In (min_list x l) l.
Proof.
  revert x. induction l as [|z l IH]; intros x; cbn; [left; reflexivity|].
  destruct (IH (Z.min x z)) as [H|H].
  - rewrite H. destruct (Z.min_spec x z) as [[_ ->]|[_ ->]]; [left|right; left]; reflexivity.
  - right. right. exact H.
Qed.

Lemma NoDup_snoc {A} (l : list A) (x : A) : NoDup l -> ~ In x l -> NoDup (l ++ [x]).
Proof.
  induction l as [|a l IH]; cbn; intros H Hn; [constructor; [tauto|constructor]|].
  inversion H; subst. constructor.
  - intros Hin. apply in_app_or in Hin. destruct Hin as [Hin|[->|[]]]; [tauto|]. apply Hn. left. reflexivity.
  - apply IH; [assumption|]. intros Hin. apply Hn. right. exact Hin.
Qed.

(* ------------------------------------------------------------------ sortedness of ids *)

Definition ids (vs : list version) : list Z := map vid vs.
Definition sorted (vs : list version) : Prop := StronglySorted Z.lt (ids vs).

Lemma sorted_app_l a b : sorted (a ++ b) -> sorted a.
Proof.
  unfold sorted, ids. induction a as [|x a IH]; cbn; intros H; [constructor|].
  inversion H; subst. constructor; [apply IH; assumption|].
  rewrite map_app in H3. apply Forall_app in H3. tauto.
Qed.

Lemma sorted_app_r a b : sorted (a ++ b) -> sorted b.
Proof.
  unfold sorted, ids. induction a as [|x a IH]; cbn; intros H; [assumption|].
  inversion H; subst. apply IH; assumption.
Qed.

Lemma sorted_app_lt a b x y : sorted (a ++ b) -> In x a -> In y b -> vid x < vid y.
Proof.
  unfold sorted, ids. induction a as [|z a IH]; cbn; intros H Hx Hy; [tauto|].
  inversion H; subst. destruct Hx as [->|Hx].
  - rewrite Forall_forall in H3. apply H3. apply in_map. apply in_or_app. right. exact Hy.
  - apply IH; assumption.
Qed.

Lemma sorted_snoc vs v : sorted vs -> (forall x, In x vs -> vid x < vid v) -> sorted (vs ++ [v]).
Proof.
  unfold sorted, ids. induction vs as [|a vs IH]; cbn; intros H Hlt.
  - constructor; constructor.
  - inversion H; subst. constructor.
    + apply IH; [assumption|]. intros x Hx. apply Hlt. right. exact Hx.
    + rewrite map_app. apply Forall_app. split; [assumption|].
      constructor; [|constructor]. apply Hlt. left. reflexivity.
Qed.

Lemma sorted_last_max vs v x : sorted vs -> last_opt vs = Some v -> In x vs -> vid x <= vid v.
Proof.
  intros Hs Hl Hx. destruct (last_opt_some _ _ Hl) as [l' ->].
  apply in_app_or in Hx. destruct Hx as [Hx|[->|[]]]; [|lia].
  assert (vid x < vid v); [|lia].
  eapply sorted_app_lt; [exact Hs|exact Hx|left; reflexivity].
Qed.

Lemma sorted_unique vs x y : sorted vs -> In x vs -> In y vs -> vid x = vid y -> x = y.
Proof.
  unfold sorted, ids. induction vs as [|a vs IH]; cbn; intros H Hx Hy E; [tauto|].
  inversion H; subst. rewrite Forall_forall in H3.
  destruct Hx as [->|Hx], Hy as [->|Hy]; try reflexivity.
  - specialize (H3 (vid y) (in_map vid _ _ Hy)). lia.
  - specialize (H3 (vid x) (in_map vid _ _ Hx)). lia.
  - apply IH; assumption.
Qed.

Lemma find_version_in vs i v : find_version i vs = Some v -> In v vs /\ vid v = i.
Proof.
  induction vs as [|a vs IH]; cbn; [discriminate|].
  destruct (vid a =? i) eqn:E.
  - intros H; inversion H; subst. split; [left; reflexivity|lia].
  - intros H. destruct (IH H). split; [right|]; assumption.
Qed.

Lemma find_version_sorted vs v : sorted vs -> In v vs -> find_version (vid v) vs = Some v.
Proof.
  intros Hs Hin. induction vs as [|a vs IH]; cbn; [destruct Hin|].
  destruct (vid a =? vid v) eqn:E.
  - f_equal. apply (sorted_unique (a :: vs)); [assumption|left; reflexivity|assumption|lia].
  - destruct Hin as [->|Hin]; [lia|]. apply IH; [|assumption].
    change (a :: vs) with ([a] ++ vs) in Hs. eapply sorted_app_r; exact Hs.
Qed.

(* ------------------------------------------------------------------ the pruning loop *)

(* everything the loop says about its result: a suffix; what was dropped was below least_kept
   and approved by the policy when it was the oldest; what remains is not prunable *)
Inductive pruned (p : pol) (least : Z) : list version -> list version -> Prop :=
| pruned_stop vs v rest : vs = v :: rest -> ((vid v <? least) && p vs v = false) -> pruned p least vs vs
| pruned_drop v rest vs' : vid v < least -> p (v :: rest) v = true -> pruned p least rest vs' ->
                           pruned p least (v :: rest) vs'.

Lemma prune_loop_spec p least vs vs' : prune_loop p least vs = Ok vs' -> pruned p least vs vs'.
Proof.
  revert vs'. induction vs as [|v rest IH]; cbn; intros vs' H; [discriminate|].
  destruct ((vid v <? least) && p (v :: rest) v) eqn:E.
  - apply andb_true_iff in E. destruct E as [E1 E2]. apply pruned_drop; [lia|assumption|].
    apply IH. exact H.
  - inversion H; subst. eapply pruned_stop; [reflexivity|exact E].
Qed.

Lemma pruned_suffix p least vs vs' : pruned p least vs vs' ->
  exists d, vs = d ++ vs' /\ Forall (fun v => vid v < least) d /\ vs' <> [].
Proof.
  induction 1 as [vs v rest -> _|v rest vs' Hlt Hp _ IH].
  - exists []. split; [reflexivity|]. split; [constructor|discriminate].
  - destruct IH as [d [-> [Hd Hne]]]. exists (v :: d). split; [reflexivity|].
    split; [constructor; assumption|assumption].
Qed.

(* maximality: the head of the result is not prunable *)
Lemma pruned_head p least vs vs' : pruned p least vs vs' ->
  exists v rest, vs' = v :: rest /\ (vid v <? least) && p vs' v = false.
Proof.
  induction 1 as [vs v rest -> Hc|v rest vs' _ _ _ IH]; [|exact IH].
  exists v, rest. split; [reflexivity|exact Hc].
Qed.

(* the loop cannot run off the deque when some version is at or above least_kept *)
Lemma prune_loop_ok p least vs : (exists v, In v vs /\ least <= vid v) ->
  exists vs', prune_loop p least vs = Ok vs'.
Proof.
  induction vs as [|a vs IH]; intros [v [Hin Hle]]; [destruct Hin|].
  cbn. destruct ((vid a <? least) && p (a :: vs) a) eqn:E; [|eexists; reflexivity].
  apply andb_true_iff in E. destruct E as [E _]. apply IH.
  destruct Hin as [->|Hin]; [lia|]. exists v. split; assumption.
Qed.

(* ------------------------------------------------------------------ the invariant *)

Record Inv (s : st) : Prop := mkInv {
  inv_hist_sorted : sorted (hist s);
  inv_suffix : exists dropped, hist s = dropped ++ versions s;
  inv_nonempty : versions s <> [];
  inv_pinned : forall r, In r (readers s) -> exists v, In v (versions s) /\ vid v = rvid r;
  inv_handles : forall r, In r (readers s) -> rh r < next_h s;
  inv_handles_nodup : NoDup (map rh (readers s));
  inv_wid : forall w, wtxn s = Some w -> wid w = next_id (versions s);
  (* nothing prunable is left: the oldest retained version is the newest, or pinned, or kept by the policy *)
  inv_maximal : forall v rest, versions s = v :: rest ->
                rest = [] \/ (exists r, In r (readers s) /\ rvid r <= vid v) \/ policy s (versions s) v = false
}.

Lemma inv_versions_sorted s : Inv s -> sorted (versions s).
Proof.
  intros H. destruct (inv_suffix s H) as [d E]. pose proof (inv_hist_sorted s H) as Hs.
  rewrite E in Hs. eapply sorted_app_r; exact Hs.
Qed.

Lemma inv_last s : Inv s -> exists v, last_opt (versions s) = Some v.
Proof.
  intros H. destruct (last_opt (versions s)) eqn:E; [eexists; reflexivity|].
  apply last_opt_none in E. destruct (inv_nonempty s H E).
Qed.

Lemma inv_last_hist s v : Inv s -> last_opt (versions s) = Some v -> last_opt (hist s) = Some v.
Proof.
  intros H Hl. destruct (inv_suffix s H) as [d E]. rewrite E.
  rewrite last_opt_app_r; [exact Hl|apply (inv_nonempty s H)].
Qed.

Lemma init_inv : Inv init.
Proof.
  constructor; cbn.
  - repeat constructor.
  - exists []. reflexivity.
  - discriminate.
  - tauto.
  - tauto.
  - constructor.
  - discriminate.
  - intros v rest H. inversion H. left. reflexivity.
Qed.

(* least_kept is defined and not above the newest id; readers' versions are at or above it *)
Lemma least_kept_spec vs rs vlast :
  sorted vs -> last_opt vs = Some vlast ->
  (forall r, In r rs -> exists v, In v vs /\ vid v = rvid r) ->
  exists least, least_kept vs rs = Ok least /\ least <= vid vlast /\
                (forall r, In r rs -> least <= rvid r) /\
                (rs = [] -> least = vid vlast) /\
                (rs <> [] -> exists r, In r rs /\ rvid r = least).
Proof.
  intros Hs Hl Hp. unfold least_kept. destruct rs as [|r rs].
  - rewrite Hl. exists (vid vlast). repeat split; try lia; try tauto. intros r [].
  - exists (min_list (rvid r) (map rvid rs)). split; [reflexivity|]. split; [|split; [|split]].
    + destruct (Hp r (or_introl eq_refl)) as [v [Hv E]].
      pose proof (sorted_last_max _ _ _ Hs Hl Hv). pose proof (min_list_le (rvid r) (map rvid rs)). lia.
    + intros r' [->|Hr']; [apply min_list_le|]. apply min_list_le_in. apply in_map. exact Hr'.
    + discriminate.
    + intros _. destruct (min_list_in (rvid r) (map rvid rs)) as [E|Hin].
      * exists r. split; [left; reflexivity|symmetry; exact E].
      * apply in_map_iff in Hin. destruct Hin as [r' [E Hr']]. exists r'. split; [right; exact Hr'|exact E].
Qed.

(* what one call of _prune_versions_unlocked guarantees *)
Record prune_post (p : pol) (vs : list version) (rs : list reader) (vs' : list version) : Prop := {
  pp_suffix : exists d, vs = d ++ vs' /\
                        (forall v r, In v d -> In r rs -> vid v < rvid r) /\
                        (forall v vl, In v d -> last_opt vs = Some vl -> vid v < vid vl);
  pp_nonempty : vs' <> [];
  pp_pins : forall r, In r rs -> exists v, In v vs' /\ vid v = rvid r;
  pp_least : exists least, least_kept vs rs = Ok least /\ pruned p least vs vs'
}.

Lemma prune_ok p vs rs :
  sorted vs -> vs <> [] ->
  (forall r, In r rs -> exists v, In v vs /\ vid v = rvid r) ->
  exists vs', prune p vs rs = Ok vs' /\ prune_post p vs rs vs'.
Proof.
  intros Hs Hne Hp.
  destruct (last_opt vs) as [vl|] eqn:Hl; [|apply last_opt_none in Hl; congruence].
  destruct (least_kept_spec vs rs vl Hs Hl Hp) as [least [Hk [Hle [Hrs _]]]].
  destruct (prune_loop_ok p least vs) as [vs' Hloop].
  { exists vl. split; [apply last_opt_in; exact Hl|exact Hle]. }
  exists vs'. split.
  - unfold prune. destruct vs; [congruence|]. rewrite Hk. cbn [bind]. exact Hloop.
  - pose proof (prune_loop_spec _ _ _ _ Hloop) as Hpr.
    destruct (pruned_suffix _ _ _ _ Hpr) as [d [E [Hd Hne']]].
    rewrite Forall_forall in Hd. constructor.
    + exists d. split; [exact E|]. split.
      * intros v r Hv Hr. specialize (Hd v Hv). specialize (Hrs r Hr). lia.
      * intros v vl' Hv Hl'. rewrite Hl in Hl'. inversion Hl'; subst. specialize (Hd v Hv). lia.
    + exact Hne'.
    + intros r Hr. destruct (Hp r Hr) as [v [Hv Ev]]. exists v. split; [|exact Ev].
      rewrite E in Hv. apply in_app_or in Hv. destruct Hv as [Hv|Hv]; [|exact Hv].
      specialize (Hd v Hv). specialize (Hrs r Hr). lia.
    + exists least. split; assumption.
Qed.

Lemma next_id_gt vs x : sorted vs -> In x vs -> vid x < next_id vs.
Proof.
  intros Hs Hx. unfold next_id. destruct (last_opt vs) as [v|] eqn:E.
  - pose proof (sorted_last_max _ _ _ Hs E Hx). lia.
  - apply last_opt_none in E. subst. destruct Hx.
Qed.

Lemma in_remove_reader h rs r : In r (remove_reader h rs) -> In r rs.
Proof.
  induction rs as [|a rs IH]; cbn; [tauto|].
  destruct (rh a =? h); [intros H; right; exact H|].
  intros [->|H]; [left; reflexivity|right; apply IH; exact H].
Qed.

Lemma nodup_remove_reader h rs : NoDup (map rh rs) -> NoDup (map rh (remove_reader h rs)).
Proof.
  induction rs as [|a rs IH]; cbn; intros H; [constructor|].
  inversion H; subst. destruct (rh a =? h); [assumption|].
  cbn. constructor; [|apply IH; assumption].
  intros Hin. apply H2. apply in_map_iff in Hin. destruct Hin as [r [E Hr]].
  apply in_map_iff. exists r. split; [exact E|]. eapply in_remove_reader; exact Hr.
Qed.

(* ------------------------------------------------------------------ preservation *)

Lemma register_inv s v : Inv s -> In v (versions s) -> Inv (fst (register s v)).
Proof.
  intros H Hv. destruct H. constructor; cbn; try assumption.
  - intros r Hr. apply in_app_or in Hr. destruct Hr as [Hr|[<-|[]]]; [auto|].
    exists v. split; [exact Hv|reflexivity].
  - intros r Hr. apply in_app_or in Hr. destruct Hr as [Hr|[<-|[]]]; [|cbn; lia].
    specialize (inv_handles0 r Hr). lia.
  - rewrite map_app. cbn. apply NoDup_snoc; [exact inv_handles_nodup0|].
    intros Hin. apply in_map_iff in Hin. destruct Hin as [r [E Hr]].
    specialize (inv_handles0 r Hr). lia.
  - intros v0 rest E. destruct (inv_maximal0 v0 rest E) as [H|[[r [Hr Hle]]|H]]; [left; exact H| |right; right; exact H].
    right. left. exists r. split; [apply in_or_app; left; exact Hr|exact Hle].
Qed.
