(* Optional and list-valued last fields (ISDN subaddress, HIP rendezvous servers, TKEY other data):
   get_remaining over blank-prefixed words that may contain escapes (name texts), and the names read back. *)
From DV Require Import Base.Prelude Model.NameM Model.TokM Model.RdTextM.
From DV Require Import Proofs.NameValid Proofs.NameText Proofs.TokEsc Proofs.TokTxt Proofs.TokWords Proofs.TokShape
     Proofs.TokGeneric Proofs.RdTextName Proofs.RdTextAddr Proofs.RdTextBitmap Proofs.RdTextTypes.
Open Scope Z_scope.

Lemma grl_unfold_m f st m acc :
  get_remaining_loop (S f) st m acc
  = (do ts <- get0 st;
     let '(t, st1) := ts in
     if is_eol_or_eof t then do st2 <- unget st1 t; Ok (rev acc, st2)
     else let acc' := t :: acc in
          if negb (m =? 0) && (zlen acc' =? m) then Ok (rev acc', st1)
          else get_remaining_loop f st1 m acc').
Proof. reflexivity. Qed.

Definition uword (w : list Z) : Prop := units w /\ w <> [].
Definition utok (w : list Z) : token := mkTok tIDENT w (has_bs w) None.

Lemma grl_uwords ws : Forall uword ws ->
  forall q rest fuel acc, line_end rest -> (length ws < fuel)%nat ->
  exists te st, is_eol_or_eof te = true /\ ungot st = Some te /\
    get_remaining_loop fuel (stq q (spaced ws ++ rest)) 0 acc = Ok (rev acc ++ map utok ws, st).
Proof.
  induction 1 as [|n ws [Hu Hne] _ IH]; intros q rest fuel acc Hrest Hfuel.
  - destruct fuel as [|f]; [cbn in Hfuel; lia|].
    destruct (get0_end_q q [] rest eq_refl Hrest) as (t & st & Ht & _ & _ & Hug & E). cbn [app] in E.
    cbn [spaced flat_map app]. rewrite grl_unfold. rewrite E. cbn [bind]. rewrite Ht. unfold unget. rewrite Hug. cbn [bind].
    do 2 eexists. split; [exact Ht|]. split; [|cbn [map]; rewrite app_nil_r; reflexivity]. reflexivity.
  - destruct fuel as [|f]; [cbn in Hfuel; lia|]. cbn [length] in Hfuel.
    unfold spaced. cbn [flat_map]. fold (spaced ws).
    replace (((32 :: n) ++ spaced ws) ++ rest) with ([32] ++ n ++ (spaced ws ++ rest))
      by (cbn [app]; rewrite <- app_assoc; reflexivity).
    rewrite grl_unfold.
    rewrite (get0_word_q q [32] n (spaced ws ++ rest) eq_refl Hu Hne (spaced_word_end ws rest Hrest)).
    cbn [bind]. unfold is_eol_or_eof at 1. cbn [ttype]. change (tIDENT =? tEOL) with false. change (tIDENT =? tEOF) with false.
    cbn [orb].
    destruct (IH false rest f (utok n :: acc) Hrest ltac:(lia)) as (te & st & H1 & H2 & E).
    fold (utok n). rewrite E. exists te, st. split; [exact H1|]. split; [exact H2|].
    cbn [rev map]. rewrite <- app_assoc. reflexivity.
Qed.

(* the printed names are words, and reading them back is name_path on each *)
Lemma names_texts sty l : Forall (fun n => Valid n /\ AllBytes n) l -> oAllBytes (s_origin sty) ->
  forall ts, map_res (name_to_styled_text sty) l = Ok ts ->
  Forall uword ts /\ forall c, map_res (as_name c) (map utok ts) = map_res (name_path sty c) l.
Proof.
  intros Hl HO. induction Hl as [|n l [V HB] _ IH]; intros ts E.
  - inversion E; subst. split; [constructor|reflexivity].
  - cbn [map_res] in E.
    destruct (name_to_styled_text sty n) as [t| |] eqn:E1; cbn [bind] in E; try discriminate.
    destruct (map_res (name_to_styled_text sty) l) as [ts'| |] eqn:E2; cbn [bind] in E; try discriminate.
    inversion E; subst ts. destruct (IH ts' eq_refl) as [I1 I2].
    assert (Hw : uword t).
    { unfold name_to_styled_text in E1.
      destruct (choose_relativity n (s_origin sty) (s_relativize sty)) as [n1| |] eqn:E3; cbn [bind] in E1; try discriminate.
      inversion E1; subst t. destruct (choose_relativity_ok _ _ _ _ V HB HO E3) as [V1 B1].
      destruct (name_text_word n1 V1 B1) as (Hu & Hne & _). split; assumption. }
    split; [constructor; assumption|]. intros c. cbn [map map_res]. unfold utok at 1.
    rewrite (as_name_printed sty c n t (has_bs t) V HB HO E1). rewrite I2. reflexivity.
Qed.

Lemma map_res_nil_inv {A B} (f : A -> res B) l : map_res f l = Ok [] -> l = [].
Proof.
  destruct l as [|a l]; [reflexivity|]. cbn [map_res]. destruct (f a); cbn [bind]; try discriminate.
  destruct (map_res f l); cbn [bind]; discriminate.
Qed.

(* ---------- reading one more word from a state left by a previous token ---------- *)
From DV Require Import Proofs.TokDec Proofs.TokHex.

Lemma word_end_blank32 r : word_end (32 :: r).
Proof. right. exists 32, r. split; reflexivity. Qed.

Lemma get_uint_word q bl n m rest : forallb is_blank bl = true -> 0 <= n <= m -> word_end rest ->
  get_uint m (stq q (bl ++ dec n ++ rest)) 10 = Ok (n, stq false rest).
Proof.
  intros Hbl Hn Hr. pose proof (dec_safe n ltac:(lia)) as Hs.
  unfold get_uint, get_unescaped.
  rewrite (get0_word_q q bl (dec n) rest Hbl (units_safe _ Hs) (dec_nonempty n) Hr).
  cbn [bind fst snd]. unfold unescape. cbn [tesc]. rewrite has_bs_safe by exact Hs. cbn [negb bind fst snd].
  rewrite as_uint_dec by lia. reflexivity.
Qed.

Lemma get_string_word q bl w rest : forallb is_blank bl = true -> forallb safe w = true -> w <> [] -> word_end rest ->
  get_string (stq q (bl ++ w ++ rest)) 0 = Ok (w, stq false rest).
Proof.
  intros Hbl Hs Hne Hr. unfold get_string, get_unescaped.
  rewrite (get0_word_q q bl w rest Hbl (units_safe _ Hs) Hne Hr).
  cbn [bind fst snd]. unfold unescape. cbn [tesc]. rewrite has_bs_safe by exact Hs. cbn [negb bind fst snd].
  unfold as_string, is_identifier, is_quoted. cbn [ttype tvalue].
  change (tIDENT =? tIDENT) with true. change (0 =? 0) with true. reflexivity.
Qed.

Lemma get_name_word c q bl w rest : forallb is_blank bl = true -> units w -> w <> [] -> word_end rest ->
  get_name c (stq q (bl ++ w ++ rest)) = (do n <- as_name c (utok w); Ok (n, stq false rest)).
Proof.
  intros Hbl Hu Hne Hr. unfold get_name. rewrite (get0_word_q q bl w rest Hbl Hu Hne Hr). reflexivity.
Qed.

Lemma wordbreak_nil c s : wordbreak [] c s = [].
Proof. unfold wordbreak. destruct (c <=? 0); reflexivity. Qed.

Lemma get_uint_from n m stX s1 : 0 <= n <= m ->
  get0 stX = Ok (mkTok tIDENT (dec n) (has_bs (dec n)) None, s1) -> get_uint m stX 10 = Ok (n, s1).
Proof.
  intros Hn HX. pose proof (dec_safe n ltac:(lia)) as Hs. unfold get_uint, get_unescaped. rewrite HX.
  cbn [bind fst snd]. unfold unescape. cbn [tesc]. rewrite has_bs_safe by exact Hs. cbn [negb bind fst snd].
  rewrite as_uint_dec by lia. reflexivity.
Qed.
