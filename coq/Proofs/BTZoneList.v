(* C20, layer B: the sorted association lists that stand for BTreeDict / BTreeSet:
   get / set / update / delete / seek characterised by membership, sortedness preserved. *)
From DV Require Import Base.Prelude Model.NameM Model.BTZoneM Proofs.BTZoneOrder.
Open Scope Z_scope.

Notation K := ekey.

Definition klt (a b : key) : Prop := kcmp a b = Lt.

(* strictly sorted key lists *)
Fixpoint ksorted (ks : list key) : Prop :=
  match ks with
  | [] => True
  | k :: r => (forall k', In k' r -> klt k k') /\ ksorted r
  end.

Definition keys {V} (l : @al V) : list key := map (fun e => K (fst e)) l.
Definition sorted {V} (l : @al V) : Prop := ksorted (keys l).

Lemma klt_irrefl : forall k, ~ klt k k.
Proof. intros k H. unfold klt in H. rewrite kcmp_refl in H. discriminate. Qed.

Lemma klt_trans : forall a b c, klt a b -> klt b c -> klt a c.
Proof. unfold klt; intros; eapply kcmp_trans; eauto. Qed.

Lemma klt_neq : forall a b, klt a b -> a <> b.
Proof. intros a b H ->. eapply klt_irrefl; eauto. Qed.

Lemma ksorted_nodup : forall ks k, ksorted (k :: ks) -> ~ In k ks.
Proof. intros ks k [H _] Hin. apply (klt_irrefl k). auto. Qed.

Lemma ksorted_unique : forall l1 l2, ksorted l1 -> ksorted l2 -> (forall k, In k l1 <-> In k l2) -> l1 = l2.
Proof.
  induction l1 as [|a l1 IH]; intros l2 S1 S2 H.
  - destruct l2 as [|b l2]; auto. exfalso. apply (H b). left; auto.
  - destruct l2 as [|b l2]; [exfalso; apply (H a); left; auto|].
    destruct S1 as [A1 S1], S2 as [B1 S2].
    assert (a = b).
    { assert (Ha : In a (b :: l2)) by (apply H; left; auto).
      assert (Hb : In b (a :: l1)) by (apply H; left; auto).
      destruct Ha as [->|Ha]; auto. destruct Hb as [->|Hb]; auto.
      exfalso. apply (klt_irrefl a). eapply klt_trans; [apply A1; eauto | apply B1; auto]. }
    subst b. f_equal. apply IH; auto. intros k. split; intros Hk.
    + assert (Hk' : In k (a :: l2)) by (apply H; right; auto). destruct Hk' as [<-|]; auto.
      exfalso. apply (klt_irrefl a). auto.
    + assert (Hk' : In k (a :: l1)) by (apply H; right; auto). destruct Hk' as [<-|]; auto.
      exfalso. apply (klt_irrefl a). auto.
Qed.

Section AL.
  Context {V : Type}.
  Implicit Types l : @al V.

  Lemma in_keys : forall l k v, In (k, v) l -> In (K k) (keys l).
  Proof. intros. unfold keys. apply in_map_iff. exists (k, v); auto. Qed.

  Lemma keys_in : forall l x, In x (keys l) -> exists k v, In (k, v) l /\ K k = x.
  Proof. intros l x H. unfold keys in H. apply in_map_iff in H as [[k v] [H1 H2]]. eauto. Qed.

  Lemma sorted_cons : forall k v l, sorted ((k, v) :: l) <->
                                    (forall k' v', In (k', v') l -> klt (K k) (K k')) /\ sorted l.
  Proof.
    intros. unfold sorted; cbn. split; intros [H1 H2]; split; auto.
    - intros k' v' Hin. apply H1. eapply in_keys; eauto.
    - intros x Hx. apply keys_in in Hx as (k' & v' & Hin & <-). eauto.
  Qed.

  Lemma sorted_functional : forall l k1 v1 k2 v2,
      sorted l -> In (k1, v1) l -> In (k2, v2) l -> K k1 = K k2 -> (k1, v1) = (k2, v2).
  Proof.
    induction l as [|[k v] l IH]; intros k1 v1 k2 v2 S H1 H2 E; [contradiction|].
    apply sorted_cons in S as [S1 S2].
    destruct H1 as [H1|H1], H2 as [H2|H2]; try congruence.
    - inversion H1; subst. exfalso. apply (klt_irrefl (K k1)). rewrite E at 2. eauto.
    - inversion H2; subst. exfalso. apply (klt_irrefl (K k2)). rewrite <- E at 2. eauto.
    - eauto.
  Qed.

  (* ---- al_get ---- *)
  Lemma al_get_some : forall l k v, al_get k l = Some v -> exists k0, In (k0, v) l /\ K k0 = K k.
  Proof.
    induction l as [|[k' v'] l IH]; intros k v H; cbn in H; [discriminate|].
    destruct (name_eqb k k') eqn:E.
    - inversion H; subst. apply name_eqb_ekey in E. exists k'. split; [left; auto|auto].
    - destruct (IH _ _ H) as (k0 & Hin & Hk). exists k0; split; [right|]; auto.
  Qed.

  Lemma al_get_none : forall l k, al_get k l = None <-> ~ In (K k) (keys l).
  Proof.
    induction l as [|[k' v'] l IH]; intros k; cbn.
    - split; auto.
    - destruct (name_eqb k k') eqn:E.
      + apply name_eqb_ekey in E. split; [discriminate|]. intros H. exfalso. apply H. left; auto.
      + apply name_eqb_false_ekey in E. rewrite IH. split.
        * intros H [H1|H1]; auto.
        * intros H H1. apply H. right; auto.
  Qed.

  Lemma al_get_in : forall l k0 k v, sorted l -> In (k0, v) l -> K k0 = K k -> al_get k l = Some v.
  Proof.
    intros l k0 k v S Hin E. destruct (al_get k l) as [v'|] eqn:G.
    - apply al_get_some in G as (k1 & Hin1 & E1).
      assert ((k1, v') = (k0, v)) by (eapply sorted_functional; eauto; congruence). congruence.
    - apply al_get_none in G. exfalso. apply G. rewrite <- E. eapply in_keys; eauto.
  Qed.

  Lemma al_mem_iff : forall l k, al_mem k l = true <-> In (K k) (keys l).
  Proof.
    intros. unfold al_mem. destruct (al_get k l) eqn:G.
    - split; auto. intros _. apply al_get_some in G as (k0 & Hin & <-). eapply in_keys; eauto.
    - apply al_get_none in G. split; [discriminate|]. intros; contradiction.
  Qed.

  Lemma al_get_ext : forall l k k', K k = K k' -> al_get k l = al_get k' l.
  Proof.
    induction l as [|[k0 v0] l IH]; intros k k' E; cbn; auto.
    assert (name_eqb k k0 = name_eqb k' k0).
    { destruct (name_eqb k k0) eqn:E1; destruct (name_eqb k' k0) eqn:E2; auto.
      - apply name_eqb_ekey in E1. apply name_eqb_false_ekey in E2. congruence.
      - apply name_eqb_ekey in E2. apply name_eqb_false_ekey in E1. congruence. }
    rewrite H. destruct (name_eqb k' k0); auto.
  Qed.

  (* ---- al_set ---- *)
  Lemma al_set_in : forall l k v k' v', sorted l ->
      (In (k', v') (al_set k v l) <-> (k', v') = (k, v) \/ (In (k', v') l /\ K k' <> K k)).
  Proof.
    induction l as [|[k0 v0] l IH]; intros k v k' v' S; cbn.
    - split; [intros [H|[]]; left; auto | intros [H|[[] _]]; left; auto].
    - apply sorted_cons in S as [S1 S2].
      destruct (order k k0 =? 0) eqn:E0.
      + apply order_eq_kcmp, kcmp_eq in E0. cbn. split.
        * intros [H|H]; [left; auto|]. right. split; auto. rewrite E0. apply not_eq_sym, klt_neq. eauto.
        * intros [H|[[H|H] Hn]]; auto. inversion H; subst. congruence.
      + destruct (order k k0 <? 0) eqn:E1.
        * apply order_lt_kcmp in E1. cbn. split.
          -- intros [H|[H|H]]; auto.
             ++ right. split; auto. inversion H; subst. apply not_eq_sym, klt_neq; auto.
             ++ right. split; auto. apply not_eq_sym, klt_neq. eapply klt_trans; eauto.
          -- intros [H|[[H|H] Hn]]; auto.
        * assert (Hgt : klt (K k0) (K k)).
          { unfold klt. apply kcmp_gt_lt. destruct (kcmp (K k) (K k0)) eqn:C; auto.
            - apply order_eq_kcmp in C. congruence.
            - apply order_lt_kcmp in C. congruence. }
          cbn. rewrite IH by auto. split.
          -- intros [H|[H|[H Hn]]]; auto. right. split; auto. inversion H; subst. apply klt_neq; auto.
          -- intros [H|[[H|H] Hn]]; auto.
  Qed.

  Lemma al_set_sorted : forall l k v, sorted l -> sorted (al_set k v l).
  Proof.
    induction l as [|[k0 v0] l IH]; intros k v S; cbn [al_set].
    - apply sorted_cons. split; [intros ? ? []|exact S].
    - pose proof S as S'. apply sorted_cons in S as [S1 S2].
      destruct (order k k0 =? 0) eqn:E0.
      + apply order_eq_kcmp, kcmp_eq in E0. apply sorted_cons. split; auto.
        intros k' v' Hin. rewrite E0. eauto.
      + destruct (order k k0 <? 0) eqn:E1.
        * apply order_lt_kcmp in E1. apply sorted_cons. split; auto.
          intros k' v' [H|H]; [inversion H; subst; auto|]. eapply klt_trans; eauto.
        * assert (Hgt : klt (K k0) (K k)).
          { unfold klt. apply kcmp_gt_lt. destruct (kcmp (K k) (K k0)) eqn:C; auto.
            - apply order_eq_kcmp in C. congruence.
            - apply order_lt_kcmp in C. congruence. }
          apply sorted_cons. split; auto.
          intros k' v' Hin. apply al_set_in in Hin; auto. destruct Hin as [H|[H _]]; eauto.
          inversion H; subst; auto.
  Qed.

  (* ---- al_update ---- *)
  Lemma al_update_keys : forall l k v, keys (al_update k v l) = keys l.
  Proof.
    induction l as [|[k0 v0] l IH]; intros k v; cbn; auto.
    destruct (name_eqb k k0); cbn; auto. f_equal. apply IH.
  Qed.

  Lemma al_update_sorted : forall l k v, sorted l -> sorted (al_update k v l).
  Proof. intros. unfold sorted. rewrite al_update_keys. auto. Qed.

  Lemma al_update_in : forall l k v k' v', sorted l ->
      (In (k', v') (al_update k v l) <->
       (exists v0, In (k', v0) l /\ K k' = K k /\ v' = v) \/ (In (k', v') l /\ K k' <> K k)).
  Proof.
    induction l as [|[k0 v0] l IH]; intros k v k' v' S; cbn.
    - split; [intros [] | intros [(? & [] & _)|[[] _]]].
    - apply sorted_cons in S as [S1 S2].
      destruct (name_eqb k k0) eqn:E.
      + apply name_eqb_ekey in E. cbn. split.
        * intros [H|H].
          -- inversion H; subst. left. exists v0. auto.
          -- right. split; auto. rewrite E. apply not_eq_sym, klt_neq. eauto.
        * intros [(v1 & [H|H] & Hk & ->)|[[H|H] Hn]]; auto.
          -- inversion H; subst; auto.
          -- exfalso. apply (klt_irrefl (K k0)). rewrite <- E at 2. rewrite <- Hk. eauto.
          -- inversion H; subst. congruence.
      + apply name_eqb_false_ekey in E. cbn. rewrite IH by auto. split.
        * intros [H|[(v1 & H & Hk & ->)|[H Hn]]].
          -- inversion H; subst. right. split; auto.
          -- left. exists v1. auto.
          -- right; auto.
        * intros [(v1 & [H|H] & Hk & ->)|[[H|H] Hn]]; auto.
          -- inversion H; subst. congruence.
          -- right. left. exists v1; auto.
  Qed.

  (* ---- al_del / al_discard ---- *)
  Lemma al_del_none : forall l k, al_del k l = None <-> ~ In (K k) (keys l).
  Proof.
    induction l as [|[k' v'] l IH]; intros k; cbn.
    - split; auto.
    - destruct (name_eqb k k') eqn:E.
      + apply name_eqb_ekey in E. split; [discriminate|]. intros H. exfalso. apply H. left; auto.
      + apply name_eqb_false_ekey in E. destruct (al_del k l) eqn:D.
        * split; [discriminate|]. intros H. exfalso.
          assert (al_del k l <> None) by congruence. apply H0. apply IH. intros Hin. apply H. right; auto.
        * split; auto. intros _ [H1|H1]; auto. apply IH in D. auto.
  Qed.

  Lemma al_del_some : forall l k l', sorted l -> al_del k l = Some l' ->
      sorted l' /\ forall k' v', In (k', v') l' <-> (In (k', v') l /\ K k' <> K k).
  Proof.
    induction l as [|[k0 v0] l IH]; intros k l' S H; cbn in H; [discriminate|].
    pose proof S as S'. apply sorted_cons in S as [S1 S2].
    destruct (name_eqb k k0) eqn:E.
    - inversion H; subst l'. apply name_eqb_ekey in E. split; auto. intros k' v'. split.
      + intros Hin. split; [right; auto|]. rewrite E. apply not_eq_sym, klt_neq. eauto.
      + intros [[Hin|Hin] Hn]; auto. inversion Hin; subst. congruence.
    - apply name_eqb_false_ekey in E. destruct (al_del k l) as [r|] eqn:D; [|discriminate].
      inversion H; subst l'. destruct (IH _ _ S2 D) as [Sr Hr]. split.
      + apply sorted_cons. split; auto. intros k' v' Hin. apply Hr in Hin as [Hin _]. eauto.
      + intros k' v'. cbn. rewrite Hr. split.
        * intros [Hin|[Hin Hn]]; [|split; auto]. inversion Hin; subst. split; auto.
        * intros [[Hin|Hin] Hn]; auto.
  Qed.

  Lemma al_discard_spec : forall l k, sorted l ->
      sorted (al_discard k l) /\
      forall k' v', In (k', v') (al_discard k l) <-> (In (k', v') l /\ K k' <> K k).
  Proof.
    intros l k S. unfold al_discard. destruct (al_del k l) as [l'|] eqn:D.
    - eapply al_del_some; eauto.
    - split; auto. apply al_del_none in D. intros k' v'. split; [|intros [H _]; auto].
      intros Hin. split; auto. intros E. apply D. rewrite <- E. eapply in_keys; eauto.
  Qed.

  (* ---- seek ---- *)
  Lemma seek_after_spec : forall (after : @al V) k (before b a : @al V),
      sorted after -> seek_after k before after = (b, a) ->
      exists mid, after = mid ++ a /\ b = rev mid ++ before /\
                  (forall k' v', In (k', v') mid -> kcmp (K k') (K k) <> Gt) /\
                  (forall k' v', In (k', v') a -> klt (K k) (K k')).
  Proof.
    induction after as [|[k0 v0] after IH]; intros k before b a S H; cbn in H.
    - inversion H; subst. exists []. cbn. repeat split; auto; intros ? ? [].
    - pose proof S as S'. apply sorted_cons in S as [S1 S2].
      destruct (order k0 k <=? 0) eqn:E.
      + apply order_le_kcmp in E. destruct (IH _ _ _ _ S2 H) as (mid & H1 & H2 & H3 & H4).
        exists ((k0, v0) :: mid). cbn. repeat split; auto.
        * rewrite H1; auto.
        * rewrite H2, <- app_assoc. reflexivity.
        * intros k' v' [Hin|Hin]; eauto. inversion Hin; subst; auto.
      + inversion H; subst. exists []. cbn. repeat split; auto.
        assert (Hgt : klt (K k) (K k0)).
        { unfold klt. apply kcmp_gt_lt. destruct (kcmp (K k0) (K k)) eqn:C; auto.
          - assert (order k0 k <=? 0 = true) by (apply order_le_kcmp; rewrite C; discriminate). congruence.
          - assert (order k0 k <=? 0 = true) by (apply order_le_kcmp; rewrite C; discriminate). congruence. }
        intros k' v' [Hin|Hin]; [inversion Hin; subst; auto|]. eapply klt_trans; eauto.
  Qed.

  Lemma c_seek_spec : forall l k (b a : @al V),
      sorted l -> c_seek l k = (b, a) ->
      l = rev b ++ a /\
      (forall k' v', In (k', v') b -> kcmp (K k') (K k) <> Gt) /\
      (forall k' v', In (k', v') a -> klt (K k) (K k')).
  Proof.
    intros l k b a S H. unfold c_seek in H.
    destruct (seek_after_spec _ _ _ _ _ S H) as (mid & H1 & H2 & H3 & H4).
    rewrite app_nil_r in H2. subst b. rewrite rev_involutive. repeat split; auto.
    intros k' v' Hin. apply in_rev in Hin. eauto.
  Qed.

  Lemma sorted_app : forall l1 l2, sorted (l1 ++ l2) ->
      sorted l1 /\ sorted l2 /\ forall k1 v1 k2 v2, In (k1, v1) l1 -> In (k2, v2) l2 -> klt (K k1) (K k2).
  Proof.
    induction l1 as [|[k v] l1 IH]; intros l2 S; cbn [app] in *.
    - repeat split; auto; try exact Logic.I. intros ? ? ? ? [].
    - apply sorted_cons in S as [S1 S2]. destruct (IH _ S2) as (A & B & C). repeat split; auto.
      + apply sorted_cons. split; auto. intros k' v' Hin. apply (S1 k' v'). apply in_or_app; auto.
      + intros k1 v1 k2 v2 [H|H] H2; eauto. inversion H; subst. apply (S1 k2 v2). apply in_or_app; auto.
  Qed.
End AL.
