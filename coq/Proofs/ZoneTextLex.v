(* C09: the tokenizer on printed lines: fields separated by blanks lex to the expected tokens. *)
From DV Require Import Base.Prelude Model.NameM Model.ZoneTextM Proofs.ZoneTextBase.
Open Scope Z_scope.

(* an identifier spelling: no unescaped delimiter, no dangling backslash, no escaped newline *)
Fixpoint id_clean_go (t : list Z) (esc : bool) : bool :=
  match t with
  | [] => negb esc
  | c :: r =>
      if esc then negb (c =? 10) && id_clean_go r false
      else if c =? 92 then id_clean_go r true
      else negb (is_delim c) && id_clean_go r false
  end.
Definition id_clean (t : list Z) : bool :=
  match t with [] => false | _ => id_clean_go t false end.

(* the inside of a quoted string: no bare quote, no raw newline, no dangling backslash *)
Fixpoint q_clean_go (t : list Z) (esc : bool) : bool :=
  match t with
  | [] => negb esc
  | c :: r =>
      if esc then q_clean_go r false
      else if c =? 92 then q_clean_go r true
      else negb (c =? 34) && negb (c =? 10) && q_clean_go r false
  end.
Definition q_clean (t : list Z) : bool := q_clean_go t false.

Definition tok_clean (t : tok) : bool :=
  match t with TId v => id_clean v | TQ v => q_clean v end.

Definition render_tok (t : tok) : list Z :=
  match t with TId v => v | TQ v => dquote v end.

Lemma lex_mid_delim c r ml a acc :
  is_delim c = true -> lex (c :: r) ml (MId a) acc = lex (c :: r) ml MSkip (TId (rev a) :: acc).
Proof. intros H. cbn [lex]. rewrite H. reflexivity. Qed.

Lemma lex_id_go : forall t a esc acc ml d rest,
  id_clean_go t esc = true -> is_delim d = true ->
  lex (t ++ d :: rest) ml (if esc then MEsc false a else MId a) acc =
  lex (d :: rest) ml MSkip (TId (rev a ++ t) :: acc).
Proof.
  induction t as [|c t IH]; intros a esc acc ml d rest Hc Hd; cbn [id_clean_go] in Hc.
  - destruct esc; [discriminate|]. cbn [app]. rewrite app_nil_r. apply lex_mid_delim; exact Hd.
  - destruct esc.
    + apply andb_true_iff in Hc as [Hn Hc]. apply negb_true_iff in Hn.
      cbn [app lex]. rewrite Hn. cbn [andb negb].
      rewrite (IH (c :: a) false acc ml d rest Hc Hd). cbn [rev]. rewrite <- app_assoc. reflexivity.
    + destruct (c =? 92) eqn:E92.
      * apply Z.eqb_eq in E92. subst c. cbn [app lex]. cbn [is_delim Z.eqb orb]. 
        rewrite (IH (92 :: a) true acc ml d rest Hc Hd). cbn [rev]. rewrite <- app_assoc. reflexivity.
      * apply andb_true_iff in Hc as [Hn Hc]. apply negb_true_iff in Hn.
        cbn [app lex]. rewrite Hn, E92.
        rewrite (IH (c :: a) false acc ml d rest Hc Hd). cbn [rev]. rewrite <- app_assoc. reflexivity.
Qed.

(* an identifier followed by a delimiter, read from between tokens *)
Lemma lex_id t acc ml d rest :
  id_clean t = true -> is_delim d = true ->
  lex (t ++ d :: rest) ml MSkip acc = lex (d :: rest) ml MSkip (TId t :: acc).
Proof.
  intros Hc Hd. destruct t as [|c t]; [discriminate|]. unfold id_clean in Hc.
  pose proof (lex_id_go (c :: t) [] false acc ml d rest Hc Hd) as H. cbn [rev app] in H.
  rewrite <- H. clear H.
  cbn [id_clean_go] in Hc.
  destruct (c =? 92) eqn:E92.
  - apply Z.eqb_eq in E92. subst c. reflexivity.
  - apply andb_true_iff in Hc as [Hn _]. apply negb_true_iff in Hn.
    cbn [app lex]. rewrite Hn, E92.
    unfold is_delim in Hn. repeat (apply orb_false_iff in Hn as [Hn ?]).
    repeat match goal with H : (c =? _) = false |- _ => rewrite H; clear H end.
    reflexivity.
Qed.

Lemma lex_q_go : forall t a esc acc ml rest,
  q_clean_go t esc = true ->
  lex (t ++ 34 :: rest) ml (if esc then MEsc true a else MQ a) acc =
  lex rest ml MSkip (TQ (rev a ++ t) :: acc).
Proof.
  induction t as [|c t IH]; intros a esc acc ml rest Hc; cbn [q_clean_go] in Hc.
  - destruct esc; [discriminate|]. cbn [app lex]. rewrite app_nil_r. reflexivity.
  - destruct esc.
    + cbn [app lex]. cbn [negb andb]. rewrite andb_false_r.
      rewrite (IH (c :: a) false acc ml rest Hc). cbn [rev]. rewrite <- app_assoc. reflexivity.
    + destruct (c =? 92) eqn:E92.
      * apply Z.eqb_eq in E92. subst c. cbn [app lex]. cbn [Z.eqb].
        rewrite (IH (92 :: a) true acc ml rest Hc). cbn [rev]. rewrite <- app_assoc. reflexivity.
      * apply andb_true_iff in Hc as [Hn Hc]. apply andb_true_iff in Hn as [Hq Hn].
        apply negb_true_iff in Hn, Hq.
        cbn [app lex]. rewrite Hq, Hn, E92.
        rewrite (IH (c :: a) false acc ml rest Hc). cbn [rev]. rewrite <- app_assoc. reflexivity.
Qed.

Lemma lex_q t acc ml rest :
  q_clean t = true ->
  lex (dquote t ++ rest) ml MSkip acc = lex rest ml MSkip (TQ t :: acc).
Proof.
  intros Hc. unfold dquote. cbn [app lex]. cbn [Z.eqb orb].
  rewrite <- app_assoc. cbn [app].
  apply (lex_q_go t [] false acc ml rest Hc).
Qed.

Lemma lex_spaces n rest ml acc : lex (repeat 32 n ++ rest) ml MSkip acc = lex rest ml MSkip acc.
Proof. induction n as [|n IH]; [reflexivity|]. cbn [repeat app lex]. cbn [Z.eqb orb]. exact IH. Qed.

(* ---------- lines as blank-separated fields ---------- *)
Inductive piece := Sp (n : nat) | Tk (t : tok).

Fixpoint render (ps : list piece) : list Z :=
  match ps with
  | [] => []
  | Sp n :: r => repeat 32 n ++ render r
  | Tk t :: r => render_tok t ++ render r
  end.

Fixpoint toks_of (ps : list piece) : list tok :=
  match ps with
  | [] => []
  | Sp _ :: r => toks_of r
  | Tk t :: r => t :: toks_of r
  end.

(* every token is clean and followed by at least one blank or the end of the line *)
Fixpoint sep_ok (ps : list piece) : bool :=
  match ps with
  | [] => true
  | Sp _ :: r => sep_ok r
  | Tk t :: r =>
      tok_clean t && match r with [] => true | Sp (S _) :: _ => true | _ => false end && sep_ok r
  end.

Lemma render_app a b : render (a ++ b) = render a ++ render b.
Proof.
  induction a as [|[n|t] a IH]; cbn [app render]; [reflexivity| |]; rewrite IH, app_assoc; reflexivity.
Qed.

Lemma toks_of_app a b : toks_of (a ++ b) = toks_of a ++ toks_of b.
Proof. induction a as [|[n|t] a IH]; cbn [app toks_of]; [reflexivity|exact IH|]. rewrite IH. reflexivity. Qed.

Lemma lex_render : forall ps acc rest,
  sep_ok ps = true ->
  lex (render ps ++ 10 :: rest) 0 MSkip acc = (rev acc ++ toks_of ps, TEol, rest).
Proof.
  induction ps as [|p ps IH]; intros acc rest Hs.
  - cbn [render app lex toks_of]. cbn [Z.eqb orb]. rewrite app_nil_r. reflexivity.
  - destruct p as [n|t].
    + cbn [render toks_of sep_ok] in *. rewrite <- app_assoc, lex_spaces. apply IH; exact Hs.
    + cbn [render toks_of sep_ok] in *.
      apply andb_true_iff in Hs as [Hs Hr]. apply andb_true_iff in Hs as [Hc Hn].
      rewrite <- app_assoc.
      assert (Hd : exists d r', render ps ++ 10 :: rest = d :: r' /\ is_delim d = true).
      { destruct ps as [|[[|k]|t'] ps']; try discriminate.
        - exists 10, rest. split; reflexivity.
        - cbn [render repeat app]. eexists _, _. split; reflexivity. }
      destruct t as [v|v]; cbn [render_tok tok_clean] in *.
      * destruct Hd as (d & r' & Hd & Hdd). rewrite Hd, (lex_id v acc 0 d r' Hc Hdd), <- Hd.
        rewrite (IH (TId v :: acc) rest Hr). cbn [rev]. rewrite <- app_assoc. reflexivity.
      * rewrite (lex_q v acc 0 _ Hc). rewrite (IH (TQ v :: acc) rest Hr). cbn [rev].
        rewrite <- app_assoc. reflexivity.
Qed.

