(* Re-rendering the parsed message reproduces the octets.
   The renderer's decisions depend on the names only through (a) their case-insensitive class (table
   lookups) and (b) the spelling of the labels written literally; a name decoded from the rendering
   agrees with the original on exactly those (relation lsim of Proofs/MessageRead.v).  The read-back
   lemmas of MessageRead/MessageRoundtrip carry, next to what the reader returns, the fact that
   writing the returned names/records against any table with ci-equal keys emits the same octets;
   MessageRoundtrip3.layout_final assembles them along the stages of Message.to_wire. *)
From DV Require Import Base.Prelude Model.NameM Model.MessageM.
From DV Require Import Proofs.NameOrder Proofs.NameValid Proofs.NameRel Proofs.NameWire Proofs.NameCompress.
From DV Require Import Proofs.MessageName Proofs.MessageRender Proofs.MessageRead Proofs.MessageRoundtrip Proofs.MessageRoundtrip2.
From DV Require Import Proofs.MessageRoundtrip3 Proofs.MessageUpdate.
Open Scope Z_scope.

Theorem rerender_identical_lemma o m ms rp w m' :
  org_ok o -> WfMsg o m -> wf_tsig m ->
  to_wire m o ms rp false 0 = Ok w -> from_wire w o po0 = Ok m' ->
  to_wire m' o ms rp false 0 = Ok w.
Proof.
  intros OO WF WT H HF.
  destruct (render_parse_rerender_lemma o OO m ms rp w WF WT H) as (m2 & HF2 & _ & RR).
  assert (m2 = m') by congruence. subst m2. exact RR.
Qed.

(* ---------- the statements of Props/C03.v (origin hypothesis first) ---------- *)
Lemma render_parse_stmt : forall o m max_size request_payload w,
  org_ok o -> WfMsg o m -> wf_tsig m ->
  to_wire m o max_size request_payload false 0 = Ok w ->
  exists m', from_wire w o po0 = Ok m' /\ msg_equiv_t m' m.
Proof. intros o m ms rp w OO. exact (render_parse_full_lemma o OO m ms rp w). Qed.

Lemma update_forms_roundtrip_stmt : forall o m z max_size request_payload w,
  org_ok o -> WfUpd o m z -> wf_tsig m ->
  to_wire m o max_size request_payload false 0 = Ok w ->
  exists m', from_wire w o po0 = Ok m' /\ msg_equiv_t m' m.
Proof. intros o m z ms rp w OO. exact (update_roundtrip_lemma o OO m z ms rp w). Qed.

Lemma update_forms_rerender_stmt : forall o m z max_size request_payload w m',
  org_ok o -> WfUpd o m z -> wf_tsig m ->
  to_wire m o max_size request_payload false 0 = Ok w -> from_wire w o po0 = Ok m' ->
  to_wire m' o max_size request_payload false 0 = Ok w.
Proof. intros o m z ms rp w m' OO. exact (update_rerender_lemma o OO m z ms rp w m'). Qed.

Lemma counts_exact_stmt : forall o pad m max_size request_payload w,
  org_ok o -> WfMsg o m -> wf_tsig m -> to_wire m o max_size request_payload false pad = Ok w ->
  exists body,
    w = hdr_bytes (mid m) (mflags m) (zlen (mq m)) (rr_count (man m)) (rr_count (mau m))
                  (rr_count (mad m) + opt_count (mopt m) + opt_count (mtsig m)) ++ body /\
    exists m', from_wire w o po0 = Ok m'.
Proof. intros o pad m ms rp w OO. exact (counts_exact_pad_lemma o OO pad m ms rp w). Qed.

Lemma name_write_sound_stmt : forall o n c file t file' t',
  org_ok o -> TableSound file t -> name_wf o n -> name_to_wire n o c file t = Ok (file', t') ->
  exists em L L' n',
    file' = file ++ em /\ TableSound file' t' /\ full_labels n o = Ok L /\ ci_equal L' L /\
    NameM.from_wire file' (length file) = Ok (L', length em) /\
    relz o L' = Ok n' /\ ci_equal n' n /\
    (forall ext endp, (length file' <= endp)%nat -> get_name (file' ++ ext) o endp (length file) = Ok (n', length file')).
Proof. intros o n c file t file' t' OO. exact (name_write_sound_lemma o OO n c file t file' t'). Qed.

Lemma render_table_sound_stmt : forall o pad m max_size request_payload r,
  org_ok o -> WfMsg o m -> wf_tsig m -> to_wire_st m o max_size request_payload false pad = Ok r ->
  TableSound (out r) (tbl r).
Proof. intros o pad m ms rp r OO. exact (render_table_sound_pad_lemma o OO pad m ms rp r). Qed.

Lemma render_parse_padded_stmt : forall o pad m max_size request_payload w,
  org_ok o -> WfMsg o m -> wf_tsig m ->
  to_wire m o max_size request_payload false pad = Ok w ->
  exists m', from_wire w o po0 = Ok m' /\ msg_equiv_p pad m' m.
Proof. intros o pad m ms rp w OO. exact (render_parse_pad_lemma o OO pad m ms rp w). Qed.

Lemma update_forms_roundtrip_padded_stmt : forall o pad m z max_size request_payload w,
  org_ok o -> WfUpd o m z -> wf_tsig m ->
  to_wire m o max_size request_payload false pad = Ok w ->
  exists m', from_wire w o po0 = Ok m' /\ msg_equiv_p pad m' m.
Proof. intros o pad m z ms rp w OO. exact (update_roundtrip_pad_lemma o OO pad m z ms rp w). Qed.
