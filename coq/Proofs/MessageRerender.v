(* Re-rendering the parsed message reproduces the octets.
   The renderer's decisions depend on the names only through (a) their case-insensitive class (table
   lookups) and (b) the spelling of the labels written literally; a name decoded from the rendering
   agrees with the original on exactly those (relation lsim of Proofs/MessageRead.v).  The read-back
   lemmas of MessageRead/MessageRoundtrip carry, next to what the reader returns, the fact that
   writing the returned names/records against any table with ci-equal keys emits the same octets;
   MessageRoundtrip3.layout_final assembles them along the stages of Message.to_wire. *)
From DV Require Import Base.Prelude Model.NameM Model.MessageM.
From DV Require Import Proofs.NameOrder Proofs.NameValid Proofs.NameRel Proofs.NameWire Proofs.NameCompress.
From DV Require Import Proofs.MessageName Proofs.MessageRender Proofs.MessageRead Proofs.MessageRoundtrip Proofs.MessageRoundtrip2.
From DV Require Import Proofs.MessageRoundtrip3.
Open Scope Z_scope.

Theorem rerender_identical_lemma o m ms rp w m' :
  org_ok o -> WfMsg o m -> wf_tsig m ->
  to_wire m o ms rp false 0 = Ok w -> from_wire w o po0 = Ok m' ->
  to_wire m' o ms rp false 0 = Ok w.
Proof.
  intros OO WF WT H HF.
  destruct (render_parse_rerender_lemma o OO m ms rp w WF WT H) as (m2 & HF2 & _ & RR).
  assert (m2 = m') by congruence. subst m2. exact RR.
Qed.
