(* C13 - applying an RFC 1995 difference (delete what is in a but not in b, add what is in b but
   not in a) to a zone that equals a gives b: entry level, then zone level. *)
From DV Require Import Base.Prelude Model.XfrM Proofs.XfrSets Proofs.XfrSpec Proofs.XfrZone.

Definition wf_oe (e : option entry) : Prop :=
  match e with Some (t, Sa) => Sa <> [] /\ ssorted Sa | None => True end.

Definition has_in (e : option entry) (t d : Z) : bool :=
  match e with Some (t', Sb) => (t' =? t) && mem d Sb | None => false end.

(* what is left of entry ea after deleting its records that are not in eb *)
Definition after_del (ea eb : option entry) : option entry :=
  match ea with
  | Some (t, Sa) =>
      match filter (fun d => negb (has_in eb t d)) Sa with
      | [] => Some (t, Sa)
      | D => norm t (diff Sa D)
      end
  | None => None
  end.

Definition after_add (e eb ea : option entry) : option entry :=
  match eb with
  | Some (t', Sb) => add_all e t' (filter (fun d => negb (has_in ea t' d)) Sb)
  | None => e
  end.

Lemma filter_nil_all : forall (f : Z -> bool) l, filter f l = [] -> forall x, In x l -> f x = false.
Proof.
  induction l as [|a r IH]; intros H x Hx; [destruct Hx|].
  cbn [filter] in H. destruct (f a) eqn:E; [discriminate|].
  destruct Hx as [->|Hx]; [exact E|apply IH; assumption].
Qed.

Lemma entry_patch : forall ea eb, wf_oe ea -> wf_oe eb ->
  after_add (after_del ea eb) eb ea = eb.
Proof.
  intros ea eb Ha Hb.
  (* the kept part of ea *)
  assert (KEPT : forall t Sa, ea = Some (t, Sa) ->
            after_del ea eb = norm t (filter (fun d => has_in eb t d) Sa)).
  { intros t Sa ->. unfold after_del.
    destruct (filter (fun d => negb (has_in eb t d)) Sa) as [|x D] eqn:ED.
    - assert (filter (fun d => has_in eb t d) Sa = Sa) as ->.
      { clear - ED. induction Sa as [|a r IH]; [reflexivity|]. cbn [filter] in *.
        destruct (has_in eb t a); cbn [negb] in ED; [|discriminate]. f_equal. apply IH, ED. }
      destruct Ha as [Hne _]. unfold norm. destruct Sa; [congruence|reflexivity].
    - rewrite <- ED. f_equal. unfold diff.
      apply filter_ext_in. intros d Hd.
      destruct (has_in eb t d) eqn:Hh.
      + apply negb_true_iff, mem_false. rewrite filter_In. rewrite Hh. cbn. intros [_ F]; discriminate.
      + apply negb_false_iff, mem_In, filter_In. rewrite Hh. auto. }
  destruct eb as [[t' Sb]|]; cbn [after_add].
  2:{ (* the RRset does not exist in b: everything of a is deleted *)
      destruct ea as [[t Sa]|]; [|reflexivity]. rewrite (KEPT t Sa eq_refl). cbn [has_in].
      assert (filter (fun _ : Z => false) Sa = []) as -> by (clear; induction Sa; auto). reflexivity. }
  destruct Hb as [Hne' Hs'].
  destruct ea as [[t Sa]|].
  2:{ cbn [after_del has_in negb]. rewrite add_all_none.
      assert (filter (fun _ : Z => true) Sb = Sb) as -> by (clear; induction Sb as [|a r IH]; cbn; [|rewrite IH]; reflexivity).
      destruct Sb; [congruence|]. f_equal. f_equal. apply union_nil_sorted, Hs'. }
  destruct Ha as [Hne Hs]. rewrite (KEPT t Sa eq_refl). cbn [has_in].
  destruct (t' =? t) eqn:Et.
  - apply Z.eqb_eq in Et. subst t'. rewrite Z.eqb_refl. cbn [andb].
    set (K := filter (fun d => mem d Sb) Sa).
    set (A := filter (fun d => negb (mem d Sa)) Sb).
    assert (HK : forall x, In x K <-> In x Sa /\ In x Sb) by (intros x; unfold K; rewrite filter_In, mem_In; tauto).
    assert (HA : forall x, In x A <-> In x Sb /\ ~ In x Sa) by (intros x; unfold A; rewrite filter_In, negb_true_iff, mem_false; tauto).
    assert (SK : ssorted K) by (apply filter_sorted, Hs).
    assert (SA : ssorted A) by (apply filter_sorted, Hs').
    assert (DEC : forall x, In x Sa \/ ~ In x Sa).
    { intros x. destruct (mem x Sa) eqn:E; [left; apply mem_In, E|right; apply mem_false, E]. }
    unfold norm. destruct K as [|k0 K0] eqn:EK.
    + rewrite add_all_none. destruct A as [|a0 A0] eqn:EA.
      * exfalso. destruct Sb as [|x Sb2]; [congruence|].
        destruct (DEC x) as [Hx|Hx].
        -- assert (In x []) by (apply HK; split; [exact Hx|left; reflexivity]). assumption.
        -- assert (In x []) by (apply HA; split; [left; reflexivity|exact Hx]). assumption.
      * f_equal. f_equal. rewrite <- EA in *. apply ssorted_ext; [apply union_sorted; constructor|exact Hs'|].
        intros x. rewrite union_In, HA. cbn [In]. split.
        -- intros [[]|[H _]]; exact H.
        -- intros H. right. split; [exact H|]. intros Hx. assert (In x []) by (apply HK; auto). assumption.
    + rewrite <- EK in *. rewrite add_all_some. f_equal. f_equal.
      * destruct A; [reflexivity|apply min_same].
      * apply ssorted_ext; [apply union_sorted, SK|exact Hs'|].
        intros x. rewrite union_In, HK, HA. split; [tauto|]. intros H. destruct (DEC x); tauto.
  - (* the TTL changed: the whole RRset is deleted and re-added *)
    rewrite (Z.eqb_sym t t'), Et. cbn [andb negb].
    assert (filter (fun _ : Z => false) Sa = []) as -> by (clear; induction Sa; auto).
    assert (filter (fun _ : Z => true) Sb = Sb) as -> by (clear; induction Sb as [|a r IH]; cbn; [|rewrite IH]; reflexivity).
    cbn [norm]. rewrite add_all_none. destruct Sb; [congruence|]. f_equal. f_equal. apply union_nil_sorted, Hs'.
Qed.

(* ---- zone level ---- *)
Fixpoint adds (z : zone) (rs : list rr) : zone :=
  match rs with
  | [] => z
  | r :: t => adds (zput (rkey r) (add1 (look z (rkey r)) (r_ttl r) (r_data r)) z) t
  end.

Fixpoint dels (z : zone) (rs : list rr) : option zone :=
  match rs with
  | [] => Some z
  | r :: t => match del1 (look z (rkey r)) (r_data r) with
              | Some oe => dels (zset (rkey r) oe z) t
              | None => None
              end
  end.

Lemma quiet_adds : forall rs z, Forall plain rs -> quiet z -> quiet (adds z rs).
Proof.
  induction rs as [|r rs IH]; intros z Hf Hq; cbn [adds]; [exact Hq|].
  inversion Hf; subst. apply IH; [assumption|]. apply quiet_zput; [exact Hq|]. rewrite rkey_kind. apply H1.
Qed.

Lemma quiet_dels : forall rs z z', dels z rs = Some z' -> quiet z -> quiet z'.
Proof.
  induction rs as [|r rs IH]; intros z z' Hd Hq; cbn [dels] in Hd; [inversion Hd; subst; exact Hq|].
  destruct (del1 (look z (rkey r)) (r_data r)) as [oe|] eqn:E; [|discriminate].
  apply (IH _ _ Hd). apply quiet_zset; [exact Hq|].
  unfold del1 in E. destruct (look z (rkey r)); [discriminate|discriminate].
Qed.

Lemma adds_app : forall a b z, adds z (a ++ b) = adds (adds z a) b.
Proof. induction a as [|r a IH]; intros b z; cbn [adds app]; [reflexivity|apply IH]. Qed.

Lemma dels_app : forall a b z, dels z (a ++ b) = match dels z a with Some z' => dels z' b | None => None end.
Proof.
  induction a as [|r a IH]; intros b z; cbn [dels app]; [reflexivity|].
  destruct (del1 (look z (rkey r)) (r_data r)); [apply IH|reflexivity].
Qed.

Lemma r_ttl_mk_rr : forall k t d, r_ttl (mk_rr k t d) = t. Proof. intros [[? ?] ?] ? ?; reflexivity. Qed.
Lemma r_data_mk_rr : forall k t d, r_data (mk_rr k t d) = d. Proof. intros [[? ?] ?] ? ?; reflexivity. Qed.

Lemma look_adds_run : forall A z k t k',
  look (adds z (map (mk_rr k t) A)) k' = if key_eqb k' k then add_all (look z k) t A else look z k'.
Proof.
  induction A as [|d A IH]; intros z k t k'; cbn [map adds].
  - unfold add_all. cbn. destruct (key_eqb k' k) eqn:E; [apply key_eqb_eq in E; subst|]; reflexivity.
  - rewrite rkey_mk_rr, r_ttl_mk_rr, r_data_mk_rr, IH. rewrite !look_zput, key_eqb_refl.
    destruct (key_eqb k' k); reflexivity.
Qed.

Lemma dels_run : forall D z k t oe,
  del_all (look z k) D = Some oe ->
  exists z', dels z (map (mk_rr k t) D) = Some z' /\
             forall k', look z' k' = if key_eqb k' k then oe else look z k'.
Proof.
  induction D as [|d D IH]; intros z k t oe H; cbn [map dels del_all] in *.
  - inversion H; subst. exists z. split; [reflexivity|]. intros k'.
    destruct (key_eqb k' k) eqn:E; [apply key_eqb_eq in E; subst|]; reflexivity.
  - rewrite rkey_mk_rr, r_data_mk_rr. destruct (del1 (look z k) d) as [oe1|]; [|discriminate].
    destruct (IH (zset k oe1 z) k t oe) as [z' [Hd Hl]].
    { rewrite look_zset, key_eqb_refl. exact H. }
    exists z'. split; [exact Hd|]. intros k'. rewrite Hl, look_zset.
    destruct (key_eqb k' k); reflexivity.
Qed.

(* the records selected from each RRset of l, RRset by RRset *)
Definition recs_sel (sel : key -> entry -> list Z) (l : zone) : list rr :=
  flat_map (fun ke => map (mk_rr (fst ke) (fst (snd ke))) (sel (fst ke) (snd ke))) l.

Lemma look_adds_entries : forall sel l z, NoDup (map fst l) -> forall k',
  look (adds z (recs_sel sel l)) k' =
  match look l k' with
  | Some e => add_all (look z k') (fst e) (sel k' e)
  | None => look z k'
  end.
Proof.
  induction l as [|[k e] l IH]; intros z Hnd k'; cbn [recs_sel flat_map look]; [reflexivity|].
  inversion Hnd; subst. fold (recs_sel sel l). rewrite adds_app, IH by assumption.
  cbn [fst snd]. rewrite !look_adds_run.
  destruct (key_eqb k' k) eqn:E.
  - apply key_eqb_eq in E. subst k'. rewrite (look_not_in l k) by assumption. reflexivity.
  - reflexivity.
Qed.

Lemma dels_entries : forall sel l z, NoDup (map fst l) ->
  (forall k t Sa, In (k, (t, Sa)) l ->
     look z k = Some (t, Sa) /\ NoDup (sel k (t, Sa)) /\ incl (sel k (t, Sa)) Sa) ->
  exists z', dels z (recs_sel sel l) = Some z' /\
    forall k', look z' k' =
      match look l k' with
      | Some (t, Sa) => match sel k' (t, Sa) with [] => Some (t, Sa) | D => norm t (diff Sa D) end
      | None => look z k'
      end.
Proof.
  induction l as [|[k [t Sa]] l IH]; intros z Hnd Hall; cbn [recs_sel flat_map look].
  - exists z. split; [reflexivity|]. reflexivity.
  - inversion Hnd; subst. fold (recs_sel sel l). cbn [fst snd].
    destruct (Hall k t Sa (or_introl eq_refl)) as (Hl & Hd & Hi).
    destruct (dels_run (sel k (t, Sa)) z k t
                (match sel k (t, Sa) with [] => Some (t, Sa) | _ => norm t (diff Sa (sel k (t, Sa))) end))
      as [z1 [Hz1 Hl1]].
    { rewrite Hl. apply del_all_closed; assumption. }
    destruct (IH z1 H2) as [z2 [Hz2 Hl2]].
    { intros k0 t0 S0 Hin. destruct (Hall k0 t0 S0 (or_intror Hin)) as (Hl0 & Hd0 & Hi0).
      split; [|split; assumption]. rewrite Hl1.
      destruct (key_eqb k0 k) eqn:E; [|exact Hl0].
      apply key_eqb_eq in E. subst k0. exfalso. apply H1. apply (in_map fst) in Hin. exact Hin. }
    exists z2. split.
    + rewrite dels_app, Hz1. exact Hz2.
    + intros k'. rewrite Hl2. destruct (key_eqb k' k) eqn:E.
      * apply key_eqb_eq in E. subst k'. rewrite (look_not_in l k) by assumption.
        rewrite Hl1, key_eqb_refl. destruct (sel k (t, Sa)); reflexivity.
      * destruct (look l k'); [reflexivity|]. rewrite Hl1, E. reflexivity.
Qed.

(* zminus as a selection *)
Definition sel_minus (b : zone) (k : key) (e : entry) : list Z :=
  filter (fun d => negb (has_in (look b k) (fst e) d)) (snd e).

Lemma has_rr_mk : forall b k t d, has_rr b (mk_rr k t d) = has_in (look b k) t d.
Proof. intros b k t d. unfold has_rr. rewrite rkey_mk_rr, r_ttl_mk_rr, r_data_mk_rr. reflexivity. Qed.

Lemma rrs_of_entry_mk : forall k t ds, rrs_of_entry (k, (t, ds)) = map (mk_rr k t) ds.
Proof. intros [[n ty] c] t ds. reflexivity. Qed.

Lemma zminus_sel : forall a b, zminus a b = recs_sel (sel_minus b) a.
Proof.
  intros a b. unfold zminus, body, recs_sel.
  induction a as [|[k [t ds]] a IH]; cbn [flat_map filter]; [reflexivity|].
  rewrite filter_app, IH. f_equal. cbn [fst snd]. rewrite rrs_of_entry_mk. unfold sel_minus. cbn [fst snd].
  clear. induction ds as [|d ds IH]; cbn [map filter]; [reflexivity|].
  rewrite has_rr_mk. destruct (negb (has_in (look b k) t d)); cbn [map]; rewrite IH; reflexivity.
Qed.

(* well-formedness without the restrictions on the RRset type (singleton types, CNAME kind) *)
Definition entry_wf0 (ke : key * entry) : Prop :=
  let '((n, t, c), (ttl, ds)) := ke in
  0 <= n /\ t <> tSOA /\ ttl_ok ttl /\ ds <> [] /\ ssorted ds.
Definition rest_wf0 (z : zone) : Prop := NoDup (map fst z) /\ Forall entry_wf0 z.

Lemma rest_wf_wf0 : forall z, rest_wf z -> rest_wf0 z.
Proof.
  intros z [Hnd Hf]. split; [exact Hnd|]. eapply Forall_impl; [|exact Hf].
  intros [[[n t] c] [ttl ds]] (H1 & H2 & H3 & H4 & H5 & _). cbn. auto.
Qed.

Lemma rest_wf_look : forall z k e, look z k = Some e -> In (k, e) z.
Proof.
  intros z k e. induction z as [|[k0 e0] r IH]; cbn [look]; [discriminate|].
  destruct (key_eqb k k0) eqn:E.
  - apply key_eqb_eq in E. subst. intros H; inversion H; subst. left; reflexivity.
  - intros H. right. apply IH, H.
Qed.

Lemma rest_wf0_entry : forall z k t ds, rest_wf0 z -> look z k = Some (t, ds) ->
  ds <> [] /\ ssorted ds /\ ttl_ok t /\ k <> soakey /\ 0 <= name_of_key k.
Proof.
  intros z k t ds Hwf Hl. pose proof (rest_wf_look z k _ Hl) as Hin.
  destruct Hwf as [_ Hf]. rewrite Forall_forall in Hf. apply Hf in Hin.
  destruct k as [[n ty] c]. cbn in Hin. destruct Hin as (Hn & Ht & Httl & Hne & Hs).
  split; [exact Hne|]. split; [exact Hs|]. split; [exact Httl|]. split; [|exact Hn].
  intros E. inversion E. subst. apply Ht. reflexivity.
Qed.

Lemma rest_wf_entry : forall z k t ds, rest_wf z -> look z k = Some (t, ds) ->
  ds <> [] /\ ssorted ds /\ ttl_ok t /\ k <> soakey /\ 0 <= name_of_key k.
Proof. intros z k t ds Hwf. apply rest_wf0_entry, rest_wf_wf0, Hwf. Qed.

Lemma rest_wf0_wf_oe : forall z k, rest_wf0 z -> wf_oe (look z k).
Proof.
  intros z k Hwf. destruct (look z k) as [[t ds]|] eqn:E; [|exact Logic.I].
  destruct (rest_wf0_entry z k t ds Hwf E) as (H1 & H2 & _). split; assumption.
Qed.

Lemma rest_wf_wf_oe : forall z k, rest_wf z -> wf_oe (look z k).
Proof. intros z k Hwf. apply rest_wf0_wf_oe, rest_wf_wf0, Hwf. Qed.

Lemma rest_wf0_no_soa : forall z, rest_wf0 z -> look z soakey = None.
Proof.
  intros z Hwf. destruct (look z soakey) as [[t ds]|] eqn:E; [|reflexivity].
  destruct (rest_wf0_entry z soakey t ds Hwf E) as (_ & _ & _ & H & _). congruence.
Qed.

Lemma rest_wf_no_soa : forall z, rest_wf z -> look z soakey = None.
Proof. intros z Hwf. apply rest_wf0_no_soa, rest_wf_wf0, Hwf. Qed.

(* The difference a -> b applied to a zone that agrees with a away from the SOA *)
Lemma diff_apply0 : forall a b z, rest_wf0 a -> rest_wf0 b ->
  (forall k, k <> soakey -> look z k = look a k) ->
  exists z1, dels z (zminus a b) = Some z1 /\
    look z1 soakey = look z soakey /\
    (forall k, k <> soakey -> look z1 k = after_del (look a k) (look b k)) /\
    forall soa_e k, look (adds (zput soakey soa_e z1) (zminus b a)) k =
                    if key_eqb k soakey then Some soa_e else look b k.
Proof.
  intros a b z Ha Hb Hz.
  destruct (dels_entries (sel_minus b) a z) as [z1 [Hd Hl]].
  { destruct Ha; assumption. }
  { intros k t Sa Hin. assert (Hla : look a k = Some (t, Sa)) by (apply look_in; [destruct Ha|]; assumption).
    destruct (rest_wf0_entry a k t Sa Ha Hla) as (_ & Hs & _ & Hk & _).
    split; [rewrite Hz; assumption|]. unfold sel_minus. cbn [fst snd]. split.
    - apply ssorted_NoDup, filter_sorted, Hs.
    - intros x Hx. apply filter_In in Hx. tauto. }
  assert (Hz1 : forall k, k <> soakey -> look z1 k = after_del (look a k) (look b k)).
  { intros k Ek. rewrite Hl. unfold after_del, sel_minus. destruct (look a k) as [[t Sa]|] eqn:Ea; cbn [fst snd].
    - reflexivity.
    - rewrite Hz, Ea by assumption. reflexivity. }
  exists z1. split; [rewrite zminus_sel; exact Hd|]. split.
  { rewrite Hl, (rest_wf0_no_soa a Ha). reflexivity. }
  split; [exact Hz1|].
  intros soa_e k. rewrite zminus_sel, look_adds_entries by (destruct Hb; assumption).
  rewrite look_zput. destruct (key_eqb k soakey) eqn:Ek.
  - apply key_eqb_eq in Ek. subst k. rewrite (rest_wf0_no_soa b Hb). reflexivity.
  - apply key_eqb_neq in Ek.
    pose proof (entry_patch (look a k) (look b k) (rest_wf0_wf_oe a k Ha) (rest_wf0_wf_oe b k Hb)) as P.
    rewrite (Hz1 k Ek). unfold after_add in P. destruct (look b k) as [[t' Sb]|] eqn:Eb.
    + unfold sel_minus. cbn [fst snd]. exact P.
    + exact P.
Qed.

Lemma diff_apply : forall a b z, rest_wf a -> rest_wf b ->
  (forall k, k <> soakey -> look z k = look a k) ->
  exists z1, dels z (zminus a b) = Some z1 /\
    look z1 soakey = look z soakey /\
    forall soa_e k, look (adds (zput soakey soa_e z1) (zminus b a)) k =
                    if key_eqb k soakey then Some soa_e else look b k.
Proof.
  intros a b z Ha Hb Hz.
  destruct (diff_apply0 a b z (rest_wf_wf0 _ Ha) (rest_wf_wf0 _ Hb) Hz) as (z1 & H1 & H2 & _ & H4).
  exists z1. auto.
Qed.
