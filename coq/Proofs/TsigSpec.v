(* RFC 8945 section 4.3 ("TSIG Variables and Coverage") and 5.3.1 (multi-message exchanges)
   written down from the RFC text, independently of dns/tsig.py and of coq/Model/TsigM.v:
   nothing here refers to the model's functions.  Octets are Z, octet strings list Z. *)
From Coq Require Import ZArith List Bool Lia.
Import ListNotations.
Open Scope Z_scope.

Definition octets := list Z.
Definition dname := list (list Z).          (* labels, the root label [] last *)

(* n-octet unsigned big-endian ("network order") representation *)
Fixpoint be (n : nat) (v : Z) : octets :=
  match n with
  | O => []
  | S n' => be n' (v / 256) ++ [v mod 256]
  end.

Definition olen (l : octets) : Z := Z.of_nat (length l).

(* RFC 4034 6.2 / RFC 8945 4.3.3: a name "in canonical wire format": no compression,
   upper-case US-ASCII letters replaced by lower-case *)
Definition to_lower (c : Z) : Z := if (65 <=? c) && (c <=? 90) then c + 32 else c.
Definition canonical_name (n : dname) : octets :=
  concat (map (fun l => olen l :: map to_lower l) n).

(* 4.3.1 Request MAC: MAC Size (16 bit) followed by MAC Data *)
Definition rfc_request_mac (mac : octets) : octets := be 2 (olen mac) ++ mac.

(* 4.3.2 DNS Message: the message without the TSIG RR (ARCOUNT not counting it) and with
   the ID field replaced by the original ID *)
Definition rfc_dns_message (original_id : Z) (msg_without_tsig : octets) : octets :=
  be 2 original_id ++ skipn 2 msg_without_tsig.

(* what a receiver feeds as "the message without the TSIG RR": everything before the TSIG RR,
   ARCOUNT decremented *)
Definition rfc_received_message (wire : octets) (arcount : Z) (tsig_start : nat) : octets :=
  firstn 10 wire ++ be 2 (arcount - 1) ++ firstn (tsig_start - 12) (skipn 12 wire).

Record tsig_variables := {
  v_name : dname;       (* NAME: the key name *)
  v_alg : dname;        (* Algorithm Name *)
  v_time : Z;           (* Time Signed, 48 bit *)
  v_fudge : Z;          (* Fudge, 16 bit *)
  v_error : Z;          (* Error, 16 bit *)
  v_other : octets      (* Other Data, preceded by Other Len (16 bit) *)
}.

Definition CLASS_ANY := 255.

(* 4.3.3 TSIG Variables, in the order of the table: NAME, CLASS, TTL, Algorithm Name,
   Time Signed, Fudge, Error, Other Len, Other Data *)
Definition rfc_tsig_variables (v : tsig_variables) : octets :=
  canonical_name (v_name v) ++ be 2 CLASS_ANY ++ be 4 0 ++ canonical_name (v_alg v)
  ++ be 6 (v_time v) ++ be 2 (v_fudge v) ++ be 2 (v_error v)
  ++ be 2 (olen (v_other v)) ++ v_other v.

(* 5.3.1 TSIG Timers: Time Signed, Fudge *)
Definition rfc_tsig_timers (time fudge : Z) : octets := be 6 time ++ be 2 fudge.

(* 4.3: a request (no request MAC), a response / first message of a multi-message response
   (request MAC included) *)
Definition rfc8945_input (request_mac : option octets) (original_id : Z) (msg : octets)
           (v : tsig_variables) : octets :=
  (match request_mac with Some m => rfc_request_mac m | None => [] end)
  ++ rfc_dns_message original_id msg ++ rfc_tsig_variables v.

(* 5.3.1: subsequent messages: the prior MAC (as in 4.3.1), every message sent without TSIG
   since then (whole, as sent), the current message, the TSIG timers *)
Definition rfc8945_input_subsequent (prior_mac : octets) (unsigned : list octets)
           (original_id : Z) (msg : octets) (time fudge : Z) : octets :=
  rfc_request_mac prior_mac ++ concat unsigned ++ rfc_dns_message original_id msg
  ++ rfc_tsig_timers time fudge.

(* section 6 + 5.2.2.1: the HMAC output is used whole, or its left-most `n` octets for the
   truncated algorithm names *)
Definition rfc_truncate (n : option nat) (digest : octets) : octets :=
  match n with Some k => firstn k digest | None => digest end.

(* 5.2.3: the time check *)
Definition rfc_time_ok (now time fudge : Z) : Prop := Z.abs (now - time) <= fudge.
