(* Theorems about a whole resolution (resolve_with), assembled from the step invariants. *)
From DV Require Import Base.Prelude Model.NameM Model.ResolM Proofs.ResolBase Proofs.ResolTerm Proofs.ResolTrace Proofs.ResolSpec Proofs.ResolCand.
Open Scope Z_scope.

Lemma FOP_impl : forall {A} (R S : A -> A -> Prop) l,
  (forall a b, R a b -> S a b) -> ForallOrdPairs R l -> ForallOrdPairs S l.
Proof.
  intros A R S l H HF. induction HF as [|a l Ha Hl IH]; constructor; auto.
  eapply Forall_impl; [|exact Ha]. intros b Hb. apply H. exact Hb.
Qed.

(* the state in which the first request of a resolution is armed *)
Lemma first_request_state : forall c ch now s1,
  next_request c (init_st c ch) (c_qnames c) now = NRequest s1 ->
  s_have_request s1 = true /\ s_nameservers s1 = c_servers c /\ s_current s1 = c_servers c /\
  s_nameserver s1 = None /\ s_retry_with_tcp s1 = false /\ s_backoff s1 = 100.
Proof.
  intros c ch now s1 H. apply next_request_request in H.
  destruct H as (q & rest & skipped & s0 & R1 & R2 & R3 & R4 & R5).
  subst s1. simpl in *. rewrite R3. simpl. repeat split; auto.
Qed.

Section Main.
Variables (sc : nat -> outcome) (c : cfg).
Hypothesis Hnodup : NoDup (ids (c_servers c)).

(* whole resolution: a server taken out of the mix is never asked again; no Python-level failure *)
Theorem broken_never_reasked_resolve : forall fuel ch e f s' e',
  resolve_with fuel sc c ch e = (f, s', e') -> f <> FFuel ->
  (exists new, e_trace e' = e_trace e ++ new /\ never_reasked c new) /\ (forall k, f <> FInternal k).
Proof.
  intros fuel ch e f s' e' H HF. unfold resolve_with in H.
  destruct (next_request c (init_st c ch) (c_qnames c) (e_clock e)) as [s1|s1 a|s1 a|s1] eqn:ENR; simpl in H.
  - destruct (first_request_state _ _ _ _ ENR) as (F1 & F2 & F3 & F4 & F5 & F6).
    refine (loop_ind sc c (e_clock e) (BInv c (e_trace e))
              (fun f _ e' => (exists new, e_trace e' = e_trace e ++ new /\ never_reasked c new) /\ (forall k, f <> FInternal k))
              _ _ fuel s1 e f s' e' _ H HF).
    + intros. eapply binv_step; eauto.
    + intros. eapply binv_final; eauto.
    + exists []. rewrite app_nil_r, F1, F2, F3, F4, F5.
      split; [reflexivity|]. split; [reflexivity|]. split; [exact Hnodup|]. split; [exact Hnodup|].
      split; [auto|]. split; [intros; discriminate|]. split; [intros; discriminate|].
      split; [intros ev []|]. constructor.
  - inversion H; subst. split; [exists []; rewrite app_nil_r; split; [reflexivity|constructor]|intros; discriminate].
  - inversion H; subst. split; [exists []; rewrite app_nil_r; split; [reflexivity|constructor]|intros; discriminate].
  - inversion H; subst. split; [exists []; rewrite app_nil_r; split; [reflexivity|constructor]|intros; discriminate].
Qed.

Hypothesis Hdur : forall i, 0 <= o_dur (sc i).

Definition tc_once (a b : event) : Prop :=
  is_trunc (ev_obs a) = true -> ev_tcp a = true -> ev_server b <> ev_server a.

Theorem tc_retry_resolve : forall ch e f s' e',
  resolve_with (fuel_bound c) sc c ch e = (f, s', e') ->
  exists new, e_trace e' = e_trace e ++ new /\
    adjacent tc_retry_rel new /\
    (forall a, last_opt new = Some a -> ev_trunc_udp a = false) /\
    ForallOrdPairs tc_once new.
Proof.
  intros ch e f s' e' H.
  destruct (resolve_terminates_within_lifetime sc c ch e f s' e' Hdur H) as (HF & _).
  destruct (broken_never_reasked_resolve _ _ _ _ _ _ H HF) as ((new0 & HE0 & HNR) & HNI).
  assert (HONCE: ForallOrdPairs tc_once new0).
  { eapply FOP_impl; [|exact HNR]. intros a b Hab Ht Htcp. apply Hab.
    unfold ev_drops, drops. unfold is_trunc in Ht. destruct (ev_obs a) as [k|m]; try discriminate.
    destruct (exn_of_class k); try discriminate. exact Htcp. }
  unfold resolve_with in H.
  destruct (next_request c (init_st c ch) (c_qnames c) (e_clock e)) as [s1|s1 a|s1 a|s1] eqn:ENR; simpl in H.
  - destruct (first_request_state _ _ _ _ ENR) as (F1 & F2 & F3 & F4 & F5 & F6).
    assert (HQ: exists new, e_trace e' = e_trace e ++ new /\ adjacent tc_retry_rel new /\
                 (forall a, last_opt new = Some a -> ev_trunc_udp a = true -> exists k, f = FInternal k)).
    { refine (loop_ind sc c (e_clock e)
                (fun s e0 => TInv c (e_clock e) s e0 /\ TCInv c (e_clock e) (e_trace e) s e0)
                (fun f _ e' => exists new, e_trace e' = e_trace e ++ new /\ adjacent tc_retry_rel new /\
                   (forall a, last_opt new = Some a -> ev_trunc_udp a = true -> exists k, f = FInternal k))
                _ _ (fuel_bound c) s1 e f s' e' _ H HF).
      - intros s0 e0 s2 e2 (HT & HTC) HS. split.
        + eapply step_decreases; eauto.
        + eapply tcinv_step; eauto.
      - intros s0 e0 f0 s2 e2 (HT & HTC) HS. eapply tcinv_final; eauto.
      - split.
        + unfold TInv. rewrite F2, F3, F6. repeat split; auto; lia.
        + exists []. rewrite app_nil_r. split; [reflexivity|]. split; [exact Logic.I|].
          intros a La. discriminate. }
    destruct HQ as (new & HE & HA & HL).
    assert (new = new0). { rewrite HE0 in HE. apply app_inv_head in HE. auto. }
    subst new0. exists new. split; auto. split; auto. split; auto.
    intros a La. destruct (ev_trunc_udp a) eqn:Ta; auto.
    destruct (HL a La Ta) as (k & Hk). exfalso. eapply HNI; eauto.
  - inversion H; subst. exists []. rewrite app_nil_r. split; auto. split; [exact Logic.I|]. split; [intros a0 La; discriminate|constructor].
  - inversion H; subst. exists []. rewrite app_nil_r. split; auto. split; [exact Logic.I|]. split; [intros a0 La; discriminate|constructor].
  - inversion H; subst. exists []. rewrite app_nil_r. split; auto. split; [exact Logic.I|]. split; [intros a0 La; discriminate|constructor].
Qed.
End Main.

(* ---------- the decision table ---------- *)
Theorem outcome_spec_resolve : forall sc c ch fuel e f s' e',
  resolve_with fuel sc c ch e = (f, s', e') -> f <> FFuel ->
  exists new, e_trace e' = e_trace e ++ new /\
    match f with
    | FInternal _ => True
    | _ => outcome_ok c (e_clock e) ch new f (e_clock e') /\ s_cache s' = cache_after c ch new
    end.
Proof.
  intros sc c ch fuel e f s' e' H HF. unfold resolve_with in H.
  pose proof (next_request_spec c (c_qnames c) (init_st c ch) (e_clock e)) as HS.
  destruct (next_request c (init_st c ch) (c_qnames c) (e_clock e)) as [s1|s1 a|s1 a|s1] eqn:ENR; simpl in H.
  - destruct HS as (skipped & q & rest & s0 & E1 & E2 & (F1 & F2 & F3) & (X1 & X2 & X3)).
    simpl in F1, F2, F3.
    refine (loop_ind sc c (e_clock e) (OInv c ch (e_trace e))
              (fun f s' e' => exists new, e_trace e' = e_trace e ++ new /\
                 match f with
                 | FInternal _ => True
                 | _ => outcome_ok c (e_clock e) ch new f (e_clock e') /\ s_cache s' = cache_after c ch new
                 end)
              _ _ fuel s1 e f s' e' _ H HF).
    + intros. eapply oinv_step; eauto.
    + intros. eapply oinv_final; eauto.
    + exists []. rewrite app_nil_r. subst s1. simpl.
      split; [reflexivity|]. split; [reflexivity|]. split; [constructor|].
      split; [exact F3|].
      split. { exists skipped. split; [exact E1|exact X1]. }
      split. { intros k v Hkv. destruct (X3 k v Hkv) as [[]|(H1 & H2)].
               right. split; [exact H1|]. exists [], [], (e_clock e). split; [reflexivity|exact H2]. }
      unfold covered. simpl. rewrite F1. intros sv Hsv. left. apply in_map. exact Hsv.
  - destruct HS as (skipped & q & rest & E1 & (F1 & F2 & F3) & (X1 & X2 & X3) & E5 & E6 & E7).
    injection H as Hf Hs He. subst f s' e'. exists []. rewrite app_nil_r. split; [reflexivity|]. simpl. split; [|exact F3].
    split; [exact E7|]. right. split; [exact E5|]. split; [constructor|].
    exists q. split; [rewrite E1; apply in_or_app; right; left; reflexivity|exact E6].
  - destruct HS as (skipped & q & rest & E1 & (F1 & F2 & F3) & (X1 & X2 & X3) & E5 & E6 & E7 & E8).
    injection H as Hf Hs He. subst f s' e'. exists []. rewrite app_nil_r. split; [reflexivity|]. simpl. split; [|exact F3].
    split; [auto|]. right. split; [exact E5|]. split; [constructor|].
    exists q. split; [rewrite E1; apply in_or_app; right; left; reflexivity|exact E6].
  - destruct HS as ((F1 & F2 & F3) & (X1 & X2 & X3)).
    injection H as Hf Hs He. subst f s' e'. exists []. rewrite app_nil_r. split; [reflexivity|]. simpl. split; [|exact F3].
    split; [reflexivity|]. split; [constructor|].
    intros q Hq. destruct (X1 q Hq) as (k & v & K1 & K2). exists k, v. split; [exact K1|]. split; [exact K2|].
    destruct (X3 k v K1) as [[]|(H1 & H2)].
    right. split; [exact H1|]. exists [], [], (e_clock e). split; [reflexivity|exact H2].
Qed.

(* ---------- candidate names are asked in order ---------- *)
Theorem candidates_in_order_resolve : forall sc c ch fuel e f s' e',
  resolve_with fuel sc c ch e = (f, s', e') -> f <> FFuel ->
  exists new, e_trace e' = e_trace e ++ new /\ Forall (cand_at c) new /\ adjacent cand_rel new.
Proof.
  intros sc c ch fuel e f s' e' H HF. unfold resolve_with in H.
  destruct (next_request c (init_st c ch) (c_qnames c) (e_clock e)) as [s1|s1 a|s1 a|s1] eqn:ENR; simpl in H.
  - apply next_request_request in ENR.
    destruct ENR as (q & rest & skipped & s0 & R1 & R2 & R3 & R4 & R5).
    refine (loop_ind sc c (e_clock e) (QInv c (e_trace e))
              (fun f s' e' => exists new, e_trace e' = e_trace e ++ new /\ Forall (cand_at c) new /\ adjacent cand_rel new)
              _ _ fuel s1 e f s' e' _ H HF).
    + intros. eapply qinv_step; eauto.
    + intros. eapply qinv_final; eauto.
    + exists []. rewrite app_nil_r. split; [reflexivity|].
      split. { exists skipped. subst s1. simpl. exact R1. }
      split; [constructor|]. split; [exact Logic.I|]. intros a0 La. discriminate.
  - injection H as Hf Hs He. subst. exists []. rewrite app_nil_r. split; [reflexivity|]. split; [constructor|exact Logic.I].
  - injection H as Hf Hs He. subst. exists []. rewrite app_nil_r. split; [reflexivity|]. split; [constructor|exact Logic.I].
  - injection H as Hf Hs He. subst. exists []. rewrite app_nil_r. split; [reflexivity|]. split; [constructor|exact Logic.I].
Qed.

(* ---------- results are cached under the queried name, type and class ---------- *)
Lemma cache_step_answer : forall c chx ev m a,
  c_cache c = true -> ev_obs ev = OMsg m -> accepts (ev_obs ev) <> None ->
  make_answer (ev_qname ev) (c_rdtype c) (c_rdclass c) m (Some (ev_server ev)) (ev_end ev) (Z.of_nat (ev_idx ev)) = Ok a ->
  cache_step c chx ev = cache_put chx {| k_name := ev_qname ev; k_type := c_rdtype c; k_class := c_rdclass c |} a.
Proof.
  intros c chx ev m a HC HO HA HM. unfold cache_step. rewrite HC, HO. rewrite HO in HA. simpl in HA.
  destruct (m_rcode m =? rcNOERROR); [|congruence]. rewrite HM. reflexivity.
Qed.

(* a reply accepted from the network is afterwards found under (question name, rdtype, rdclass)
   until it expires; the question name is one of the candidates *)
Theorem cache_put_spec_resolve : forall sc c ch fuel e f s' e' a,
  resolve_with fuel sc c ch e = (f, s', e') -> f <> FFuel -> c_cache c = true ->
  f = FAnswer a \/ f = FNoAnswer a ->
  forall new, e_trace e' = e_trace e ++ new -> from_network c new a ->
  In (a_qname a) (c_qnames c) /\
  forall now, now < a_expiration a ->
    cache_get (s_cache s') {| k_name := a_qname a; k_type := c_rdtype c; k_class := c_rdclass c |} now = Some a.
Proof.
  intros sc c ch fuel e f s' e' a H HF HC Hf new HE HN.
  destruct (outcome_spec_resolve _ _ _ _ _ _ _ _ H HF) as (new1 & HE1 & HO).
  destruct (candidates_in_order_resolve _ _ _ _ _ _ _ _ H HF) as (new2 & HE2 & HC2 & _).
  assert (new1 = new) by (rewrite HE in HE1; apply app_inv_head in HE1; auto).
  assert (new2 = new) by (rewrite HE in HE2; apply app_inv_head in HE2; auto).
  subst new1 new2.
  assert (HS: s_cache s' = cache_after c ch new) by (destruct Hf; subst f; apply HO).
  destruct HN as (pre & ev & m & E1 & _ & E3 & E4 & E5).
  destruct (make_answer_ok _ _ _ _ _ _ _ _ E5) as (chx & _ & Q & _).
  split.
  - rewrite Q. subst new. apply Forall_app in HC2. destruct HC2 as [_ HC2]. inversion HC2 as [|x l (done & rest & D1 & _) _]; subst.
    rewrite D1. apply in_or_app. right. left. reflexivity.
  - intros now Hnow. rewrite HS, E1, cache_after_snoc, (cache_step_answer c _ ev m a HC E3 E4 E5), Q.
    apply cache_get_put_same. exact Hnow.
Qed.

(* an unexpired cached answer for the first candidate is returned without any query *)
Theorem cache_hit_spec_resolve : forall sc c ch fuel e q rest a,
  c_qnames c = q :: rest -> c_cache c = true ->
  cache_get ch {| k_name := q; k_type := c_rdtype c; k_class := c_rdclass c |} (e_clock e) = Some a ->
  exists s', resolve_with fuel sc c ch e =
    ((if (match a_rrset a with None => true | Some _ => false end) && c_raise c then FNoAnswer a else FAnswer a), s', e)
    /\ s_cache s' = ch.
Proof.
  intros sc c ch fuel e q rest a HQ HC HG. unfold resolve_with. rewrite HQ. simpl. rewrite HC. simpl. rewrite HG.
  destruct ((match a_rrset a with None => true | Some _ => false end) && c_raise c); simpl; eexists; split; reflexivity.
Qed.

(* ---------- the whole resolve() call: exactly the documented results ---------- *)
Lemma vl_loop_no_internal : forall ls t i j e, vl_loop ls t i j <> Internal e.
Proof.
  induction ls as [|l r IH]; intros t i j e; simpl; [discriminate|].
  destruct (zlen l >? 63); [discriminate|apply IH].
Qed.

Lemma concatenate_no_internal : forall a b e, concatenate a b <> Internal e.
Proof.
  intros a b e. unfold concatenate. destruct (is_absolute a && (0 <? zlen b)); [discriminate|].
  unfold mk_name, validate_labels.
  destruct (vl_loop (a ++ b) 0 None 0%nat) as [[t i]|x|x] eqn:EV.
  - destruct (t >? 255); [discriminate|]. destruct i as [k|]; [|discriminate].
    destruct (Nat.eqb k (length (a ++ b) - 1)); discriminate.
  - discriminate.
  - exfalso. eapply vl_loop_no_internal; eauto.
Qed.

Lemma concat_all_no_internal : forall q sl e, concat_all q sl <> Internal e.
Proof.
  induction sl as [|s r IH]; intros e; simpl; [discriminate|].
  destruct (concatenate q s) as [x|x|x] eqn:EC; simpl; try discriminate.
  - destruct (concat_all q r) as [y|y|y] eqn:ER; simpl; try discriminate. exfalso. eapply IH; eauto.
  - exfalso. eapply concatenate_no_internal; eauto.
Qed.

Lemma qnames_to_try_no_internal : forall r q srch e, qnames_to_try r q srch <> Internal e.
Proof.
  intros r q srch e. unfold qnames_to_try. destruct (is_absolute q); [discriminate|].
  destruct (concatenate q root) as [x|x|x] eqn:EC; simpl; try discriminate.
  - destruct (match srch with Some b => b | None => r_use_search_by_default r end); [|discriminate].
    destruct (concat_all q (search_list r)) as [y|y|y] eqn:ER; simpl; try discriminate.
    + destruct (zlen q >? match r_ndots r with Some n => n | None => 1 end); discriminate.
    + exfalso. eapply concat_all_no_internal; eauto.
  - exfalso. eapply concatenate_no_internal; eauto.
Qed.

Definition documented (f : final) : Prop :=
  match f with
  | FAnswer _ | FNoAnswer _ | FNXDOMAIN _ _ | FYXDOMAIN | FNoNameservers _ | FLifetime _ _ => True
  | _ => False
  end.

(* Resolver.resolve as a whole: one of the six documented results, or the two refusals that happen
   before any query is sent (metaquery; a candidate name that does not fit in 255 octets) *)
Theorem resolve_documented_results : forall sc r rq ch e f ch' e',
  NoDup (ids (r_servers r)) -> (forall i, 0 <= o_dur (sc i)) ->
  resolve 0 sc r rq ch e = (f, ch', e') ->
  documented f \/
  (f = FNoMetaqueries /\ (is_metatype (rq_rdtype rq) = true \/ is_metaclass (rq_rdclass rq) = true) /\ e' = e /\ ch' = ch) \/
  (exists er, f = FLibError er /\ qnames_to_try r (rq_qname rq) (rq_search rq) = Lib er /\ e' = e /\ ch' = ch).
Proof.
  intros sc r rq ch e f ch' e' HND Hdur H. unfold resolve in H.
  destruct (is_metatype (rq_rdtype rq)) eqn:EM.
  - inversion H; subst. right. left. auto.
  - destruct (is_metaclass (rq_rdclass rq)) eqn:EC.
    + inversion H; subst. right. left. auto.
    + destruct (qnames_to_try r (rq_qname rq) (rq_search rq)) as [qs|er|er] eqn:EQ.
      * rewrite Nat.add_0_r in H.
        destruct (resolve_with (fuel_bound (mk_cfg r rq qs)) sc (mk_cfg r rq qs) ch e) as [[f0 s0] e0] eqn:ER.
        inversion H; subst f0 e0 ch'. clear H.
        destruct (resolve_terminates_within_lifetime _ _ _ _ _ _ _ Hdur ER) as (HF & _).
        destruct (broken_never_reasked_resolve sc (mk_cfg r rq qs) HND _ _ _ _ _ _ ER HF) as (_ & HNI).
        destruct (outcome_spec_resolve _ _ _ _ _ _ _ _ ER HF) as (new & _ & HO).
        left. destruct f; simpl; auto.
        -- destruct HO as [[] _].
        -- destruct HO as [[] _].
        -- exfalso. eapply HNI; eauto.
      * inversion H; subst. right. right. exists er. auto.
      * exfalso. eapply qnames_to_try_no_internal; eauto.
Qed.

(* the general cache hit: earlier candidates have a cached NXDOMAIN (and no cached answer), the next
   one has an unexpired cached answer: it is returned without any query *)
Lemma next_request_cache_hit : forall c now a q rest pre s,
  c_cache c = true ->
  (forall p, In p pre ->
     cache_get (s_cache s) {| k_name := p; k_type := c_rdtype c; k_class := c_rdclass c |} now = None /\
     exists a', cache_get (s_cache s) {| k_name := p; k_type := tANY; k_class := c_rdclass c |} now = Some a' /\
                a_rcode a' = rcNXDOMAIN) ->
  cache_get (s_cache s) {| k_name := q; k_type := c_rdtype c; k_class := c_rdclass c |} now = Some a ->
  exists s', s_cache s' = s_cache s /\
    next_request c s (pre ++ q :: rest) now =
      (if (match a_rrset a with None => true | Some _ => false end) && c_raise c then NNoAnswer s' a else NAnswer s' a).
Proof.
  intros c now a q rest. induction pre as [|p pre IH]; intros s HC HP HG; simpl.
  - rewrite HC. simpl. rewrite HG.
    destruct ((match a_rrset a with None => true | Some _ => false end) && c_raise c); exists (with_qname s q rest); split; reflexivity.
  - rewrite HC. simpl. destruct (HP p (or_introl eq_refl)) as (G1 & a' & G2 & G3).
    rewrite G1, G2, G3. simpl.
    destruct (IH (with_nx (with_qname s p (pre ++ q :: rest)) (nx_set (s_nx s) p (a_src a'))) HC) as (s' & E1 & E2).
    + intros p0 Hp0. simpl. apply HP. right. exact Hp0.
    + simpl. exact HG.
    + exists s'. split; [exact E1|exact E2].
Qed.

Theorem cache_hit_general_resolve : forall sc c ch fuel e pre q rest a,
  c_qnames c = pre ++ q :: rest -> c_cache c = true ->
  (forall p, In p pre ->
     cache_get ch {| k_name := p; k_type := c_rdtype c; k_class := c_rdclass c |} (e_clock e) = None /\
     exists a', cache_get ch {| k_name := p; k_type := tANY; k_class := c_rdclass c |} (e_clock e) = Some a' /\
                a_rcode a' = rcNXDOMAIN) ->
  cache_get ch {| k_name := q; k_type := c_rdtype c; k_class := c_rdclass c |} (e_clock e) = Some a ->
  exists s', resolve_with fuel sc c ch e =
    ((if (match a_rrset a with None => true | Some _ => false end) && c_raise c then FNoAnswer a else FAnswer a), s', e)
    /\ s_cache s' = ch.
Proof.
  intros sc c ch fuel e pre q rest a HQ HC HP HG. unfold resolve_with. rewrite HQ.
  destruct (next_request_cache_hit c (e_clock e) a q rest pre (init_st c ch) HC HP HG) as (s' & E1 & E2).
  rewrite E2. simpl in E1.
  destruct ((match a_rrset a with None => true | Some _ => false end) && c_raise c); simpl; exists s'; auto.
Qed.
