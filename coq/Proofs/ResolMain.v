(* Theorems about a whole resolution (resolve_with), assembled from the step invariants. *)
From DV Require Import Base.Prelude Model.NameM Model.ResolM Proofs.ResolBase Proofs.ResolTerm Proofs.ResolTrace.
Open Scope Z_scope.

Lemma FOP_impl : forall {A} (R S : A -> A -> Prop) l,
  (forall a b, R a b -> S a b) -> ForallOrdPairs R l -> ForallOrdPairs S l.
Proof.
  intros A R S l H HF. induction HF as [|a l Ha Hl IH]; constructor; auto.
  eapply Forall_impl; [|exact Ha]. intros b Hb. apply H. exact Hb.
Qed.

(* the state in which the first request of a resolution is armed *)
Lemma first_request_state : forall c ch now s1,
  next_request c (init_st c ch) (c_qnames c) now = NRequest s1 ->
  s_have_request s1 = true /\ s_nameservers s1 = c_servers c /\ s_current s1 = c_servers c /\
  s_nameserver s1 = None /\ s_retry_with_tcp s1 = false /\ s_backoff s1 = 100.
Proof.
  intros c ch now s1 H. apply next_request_request in H.
  destruct H as (q & rest & skipped & s0 & R1 & R2 & R3 & R4 & R5).
  subst s1. simpl in *. rewrite R3. simpl. repeat split; auto.
Qed.

Section Main.
Variables (sc : nat -> outcome) (c : cfg).
Hypothesis Hnodup : NoDup (ids (c_servers c)).

(* whole resolution: a server taken out of the mix is never asked again; no Python-level failure *)
Theorem broken_never_reasked_resolve : forall fuel ch e f s' e',
  resolve_with fuel sc c ch e = (f, s', e') -> f <> FFuel ->
  (exists new, e_trace e' = e_trace e ++ new /\ never_reasked c new) /\ (forall k, f <> FInternal k).
Proof.
  intros fuel ch e f s' e' H HF. unfold resolve_with in H.
  destruct (next_request c (init_st c ch) (c_qnames c) (e_clock e)) as [s1|s1 a|s1 a|s1] eqn:ENR; simpl in H.
  - destruct (first_request_state _ _ _ _ ENR) as (F1 & F2 & F3 & F4 & F5 & F6).
    refine (loop_ind sc c (e_clock e) (BInv c (e_trace e))
              (fun f _ e' => (exists new, e_trace e' = e_trace e ++ new /\ never_reasked c new) /\ (forall k, f <> FInternal k))
              _ _ fuel s1 e f s' e' _ H HF).
    + intros. eapply binv_step; eauto.
    + intros. eapply binv_final; eauto.
    + exists []. rewrite app_nil_r, F1, F2, F3, F4, F5.
      split; [reflexivity|]. split; [reflexivity|]. split; [exact Hnodup|]. split; [exact Hnodup|].
      split; [auto|]. split; [intros; discriminate|]. split; [intros; discriminate|].
      split; [intros ev []|]. constructor.
  - inversion H; subst. split; [exists []; rewrite app_nil_r; split; [reflexivity|constructor]|intros; discriminate].
  - inversion H; subst. split; [exists []; rewrite app_nil_r; split; [reflexivity|constructor]|intros; discriminate].
  - inversion H; subst. split; [exists []; rewrite app_nil_r; split; [reflexivity|constructor]|intros; discriminate].
Qed.

Hypothesis Hdur : forall i, 0 <= o_dur (sc i).

Definition tc_once (a b : event) : Prop :=
  is_trunc (ev_obs a) = true -> ev_tcp a = true -> ev_server b <> ev_server a.

Theorem tc_retry_resolve : forall ch e f s' e',
  resolve_with (fuel_bound c) sc c ch e = (f, s', e') ->
  exists new, e_trace e' = e_trace e ++ new /\
    adjacent tc_retry_rel new /\
    (forall a, last_opt new = Some a -> ev_trunc_udp a = false) /\
    ForallOrdPairs tc_once new.
Proof.
  intros ch e f s' e' H.
  destruct (resolve_terminates_within_lifetime sc c ch e f s' e' Hdur H) as (HF & _).
  destruct (broken_never_reasked_resolve _ _ _ _ _ _ H HF) as ((new0 & HE0 & HNR) & HNI).
  assert (HONCE: ForallOrdPairs tc_once new0).
  { eapply FOP_impl; [|exact HNR]. intros a b Hab Ht Htcp. apply Hab.
    unfold ev_drops, drops. unfold is_trunc in Ht. destruct (ev_obs a) as [k|m]; try discriminate.
    destruct (exn_of_class k); try discriminate. exact Htcp. }
  unfold resolve_with in H.
  destruct (next_request c (init_st c ch) (c_qnames c) (e_clock e)) as [s1|s1 a|s1 a|s1] eqn:ENR; simpl in H.
  - destruct (first_request_state _ _ _ _ ENR) as (F1 & F2 & F3 & F4 & F5 & F6).
    assert (HQ: exists new, e_trace e' = e_trace e ++ new /\ adjacent tc_retry_rel new /\
                 (forall a, last_opt new = Some a -> ev_trunc_udp a = true -> exists k, f = FInternal k)).
    { refine (loop_ind sc c (e_clock e)
                (fun s e0 => TInv c (e_clock e) s e0 /\ TCInv c (e_clock e) (e_trace e) s e0)
                (fun f _ e' => exists new, e_trace e' = e_trace e ++ new /\ adjacent tc_retry_rel new /\
                   (forall a, last_opt new = Some a -> ev_trunc_udp a = true -> exists k, f = FInternal k))
                _ _ (fuel_bound c) s1 e f s' e' _ H HF).
      - intros s0 e0 s2 e2 (HT & HTC) HS. split.
        + eapply step_decreases; eauto.
        + eapply tcinv_step; eauto.
      - intros s0 e0 f0 s2 e2 (HT & HTC) HS. eapply tcinv_final; eauto.
      - split.
        + unfold TInv. rewrite F2, F3, F6. repeat split; auto; lia.
        + exists []. rewrite app_nil_r. split; [reflexivity|]. split; [exact Logic.I|].
          intros a La. discriminate. }
    destruct HQ as (new & HE & HA & HL).
    assert (new = new0). { rewrite HE0 in HE. apply app_inv_head in HE. auto. }
    subst new0. exists new. split; auto. split; auto. split; auto.
    intros a La. destruct (ev_trunc_udp a) eqn:Ta; auto.
    destruct (HL a La Ta) as (k & Hk). exfalso. eapply HNI; eauto.
  - inversion H; subst. exists []. rewrite app_nil_r. split; auto. split; [exact Logic.I|]. split; [intros a0 La; discriminate|constructor].
  - inversion H; subst. exists []. rewrite app_nil_r. split; auto. split; [exact Logic.I|]. split; [intros a0 La; discriminate|constructor].
  - inversion H; subst. exists []. rewrite app_nil_r. split; auto. split; [exact Logic.I|]. split; [intros a0 La; discriminate|constructor].
Qed.
End Main.
