(* C02 with an origin: relative names (and absolute names outside the origin) survive
   to_wire(origin) / from_wire(origin).  Uses the relativity theorems of Proofs/NameRel.v. *)
From DV Require Import Base.Prelude Model.NameM Model.SchemaM Proofs.SchemaName Proofs.SchemaCodec Proofs.SchemaThm Proofs.SchemaFix Proofs.SchemaTable.
From DV Require Proofs.NameValid Proofs.NameRel.
Open Scope Z_scope.

Lemma wire_labels_app : forall c a b, wire_labels c (a ++ b) = wire_labels c a ++ wire_labels c b.
Proof. intros. unfold wire_labels. apply flat_map_app. Qed.

Section Origin.
  Variable o : name.
  Hypothesis o_abs : is_absolute o = true.

  (* what a name value must satisfy to come back unchanged when origin o is in force:
     relative names must fit together with the origin; absolute names must lie outside the
     origin (otherwise the reader relativizes them - by design) unless the reader ignores the
     origin for this field *)
  Definition nok_origin (rel : bool) (n : name) : Prop :=
    (rel = true /\ is_absolute n = false /\ NameValid.Valid (n ++ o)) \/
    (is_absolute n = true /\ validate_labels n = Ok tt /\ (rel = true -> is_subdomain n o = false)).

  Lemma hname_origin : forall rel n b A R P,
    nok_origin rel n -> NameM.to_wire n (Some o) false = Ok b ->
    get_name (A ++ b ++ R ++ P) (Some o) rel (length A + length b + length R) (length A)
    = Ok (n, (length A + length b)%nat).
  Proof.
    intros rel n b A R P Hn He. unfold NameM.to_wire in He.
    destruct Hn as [(Hrel & Hna & Hv)|(Habs & Hv & Hsub)].
    - rewrite Hna, o_abs in He.
      destruct (wire_length n + wire_length o >? 255); [discriminate|].
      injection He as <-. subst rel.
      rewrite <- wire_labels_app.
      unfold get_name. rewrite firstn_endp.
      assert (Habs : is_absolute (n ++ o) = true).
      { destruct o as [|x o']; [discriminate|]. rewrite NameValid.is_absolute_app. exact o_abs. }
      rewrite from_wire_plain by (auto; apply NameValid.validate_iff; exact Hv).
      destruct o as [|x o'] eqn:Eo; [discriminate|]. rewrite <- Eo in *.
      destruct (NameRel.derel_rel n o) as [_ Hr]; auto.
      + eapply NameValid.Valid_prefix; eauto.
      + eapply NameValid.Valid_app_r; eauto.
      + rewrite Hr. reflexivity.
    - rewrite Habs in He. injection He as <-.
      unfold get_name. rewrite firstn_endp.
      rewrite from_wire_plain by assumption.
      destruct rel.
      + destruct o as [|x o'] eqn:Eo; [discriminate|]. rewrite <- Eo in *.
        unfold relativize. rewrite (Hsub eq_refl). reflexivity.
      + reflexivity.
  Qed.

  Theorem schema_roundtrip_origin_thm : forall fs ck vs b A P,
    schema_wf fs = true -> nok_fields nok_origin fs vs ->
    encode_rdata (Some o) fs ck vs = Ok b ->
    decode_rdata (Some o) fs ck (A ++ b ++ P) (length A) (length b) = Ok vs.
  Proof.
    intros fs ck vs b A P Hwf Hn He. unfold encode_rdata in He.
    destruct (validate fs ck vs) eqn:Hv; [|discriminate].
    eapply roundtrip_gen with (NOK := nok_origin); eauto.
    apply hname_origin.
  Qed.
End Origin.

(* ---------- table level: entries whose writer and reader agree on the origin flags ---------- *)
Lemma sfld_full_eq : forall a b, sfld_eqb a b = true -> sfld_rel_eqb a b = true -> a = b.
Proof.
  intros [w m|n|w lo hi|r] [w' m'|n'|w' lo' hi'|r'] H H2; cbn in H, H2; try discriminate.
  - apply andb_prop in H as [H1 H3]. apply Nat.eqb_eq in H1. apply Z.eqb_eq in H3. congruence.
  - apply Nat.eqb_eq in H. congruence.
  - apply andb_prop in H as [H H3]. apply andb_prop in H as [H1 H4].
    apply Nat.eqb_eq in H1. apply Z.eqb_eq in H3. apply Z.eqb_eq in H4. congruence.
  - apply eqb_prop in H2. congruence.
Qed.

Lemma row_full_eq : forall a b, row_eqb a b = true ->
  (fix go (a b : list sfld) := match a, b with
                               | x :: a', y :: b' => sfld_rel_eqb x y && go a' b'
                               | _, _ => true end) a b = true -> a = b.
Proof.
  induction a as [|x a IH]; intros [|y b] H H2; cbn in H; try discriminate; [reflexivity|].
  apply andb_prop in H as [H1 H3]. apply andb_prop in H2 as [H4 H5].
  f_equal; [apply sfld_full_eq; assumption|apply IH; assumption].
Qed.

Lemma fld_full_eq : forall a b, fld_eqb a b = true -> fld_rel_eqb a b = true -> a = b.
Proof.
  intros [s|lo|n|hi|m a row] [s'|lo'|n'|hi'|m' a' row'] H H2; cbn in H; try discriminate.
  - f_equal. apply sfld_full_eq; assumption.
  - apply Z.eqb_eq in H. congruence.
  - apply Nat.eqb_eq in H. congruence.
  - apply Z.eqb_eq in H. congruence.
  - apply andb_prop in H as [H H3]. apply andb_prop in H as [H1 H4].
    apply eqb_prop in H1. apply eqb_prop in H4. subst. f_equal. apply row_full_eq; assumption.
Qed.

Lemma sides_full_eq : forall a b, sides_eqb a b = true -> rel_eqb a b = true -> map fst a = map fst b.
Proof.
  induction a as [|[x s] a IH]; intros [|[y t] b] H H2; cbn in H; try discriminate; [reflexivity|].
  apply andb_prop in H as [H H3]. apply andb_prop in H as [H1 H4].
  cbn [rel_eqb] in H2. apply andb_prop in H2 as [H5 H6].
  cbn [map fst]. f_equal; [apply fld_full_eq; assumption|apply IH; assumption].
Qed.

Lemma fld_rel_eqb_fixed : forall x n, fld_rel_eqb x (FS (FFixed n)) = true.
Proof. intros x k; destruct x as [[ | | | ]| | | | ]; reflexivity. Qed.

Lemma rel_eqb_nil_r : forall w, rel_eqb w [] = true.
Proof. intros [|[x s] w]; reflexivity. Qed.

Lemma rel_eqb_norm_last : forall r w, rel_eqb w r = true -> rel_eqb w (norm_last r) = true.
Proof.
  induction r as [|[y t] r IH]; intros w H; [exact H|].
  destruct r as [|z r'].
  - destruct w as [|[x s] w']; [destruct y; reflexivity|].
    destruct y; try exact H.
    cbn [norm_last rel_eqb]. rewrite fld_rel_eqb_fixed, rel_eqb_nil_r. reflexivity.
  - assert (E : norm_last ((y, t) :: z :: r') = (y, t) :: norm_last (z :: r')) by (destruct y; reflexivity).
    rewrite E. destruct w as [|[x s] w']; [reflexivity|].
    cbn [rel_eqb] in *. apply andb_prop in H as [H1 H2]. rewrite H1. cbn [andb]. apply IH. exact H2.
Qed.

(* an entry that is entry_ok and whose two sides agree on the origin flags has ONE field list *)
Lemma entry_sides_equal : forall e w r ck,
  entry_ok e = true -> entry_origin_ok e = true -> e_codec e = CSchema w r ck ->
  map fst w = map fst (norm_last r).
Proof.
  intros e w r ck Hok Hor Hc. unfold entry_ok in Hok. unfold entry_origin_ok in Hor. rewrite Hc in *.
  apply andb_prop in Hok as [Hok _]. apply andb_prop in Hok as [Hok _]. apply andb_prop in Hok as [Hs _].
  apply sides_full_eq; [exact Hs|]. apply rel_eqb_norm_last. exact Hor.
Qed.

Theorem table_roundtrip_origin_thm : forall tbl o e w r ck vs b A P,
  forallb entry_ok tbl = true -> In e tbl -> entry_origin_ok e = true ->
  e_codec e = CSchema w r ck -> is_absolute o = true ->
  nok_fields (nok_origin o) (map fst w) vs ->
  encode_rdata (Some o) (map fst w) ck vs = Ok b ->
  decode_rdata (Some o) (map fst r) ck (A ++ b ++ P) (length A) (length b) = Ok vs.
Proof.
  intros tbl o e w r ck vs b A P Ht Hin Hor Hc Ho Hn He.
  rewrite forallb_forall in Ht. specialize (Ht e Hin).
  rewrite <- decode_rdata_norm_last.
  rewrite <- (entry_sides_equal e w r ck Ht Hor Hc).
  apply schema_roundtrip_origin_thm; auto.
  eapply entry_ok_wf; eauto.
Qed.

(* ---------- the known finding: TSIG's reader ignores the origin that its writer applies ---------- *)
Definition tsig_w : list (fld * Z) :=
  [(FS (FName true), 0); (FS (FU 6 281474976710655), 1); (FS (FU 2 65535), 2); (FS (FCounted 2 0 65535), 3);
   (FS (FU 2 65535), 4); (FS (FU 2 4095), 5); (FS (FCounted 2 0 65535), 6)].
Definition tsig_r : list (fld * Z) :=
  [(FS (FName false), 0); (FS (FU 6 281474976710655), 1); (FS (FU 2 65535), 2); (FS (FCounted 2 0 65535), 3);
   (FS (FU 2 65535), 4); (FS (FU 2 4095), 5); (FS (FCounted 2 0 65535), 6)].

Theorem tsig_origin_roundtrip_refuted_thm :
  entry_ok (mk_entry 255 250 tsig_w tsig_r CkNone) = true /\
  exists o vs b,
    is_absolute o = true /\ nok_fields (nok_origin o) (map fst tsig_w) vs /\
    encode_rdata (Some o) (map fst tsig_w) CkNone vs = Ok b /\
    exists vs', decode_rdata (Some o) (map fst tsig_r) CkNone b 0 (length b) = Ok vs' /\ vs' <> vs.
Proof.
  split; [reflexivity|].
  exists [[101; 120]; []].
  exists [VS (VN [[88]]); VS (VI 5); VS (VI 300); VS (VB [1; 2]); VS (VI 7); VS (VI 0); VS (VB [])].
  eexists. split; [reflexivity|]. split.
  - cbn. repeat split; try exact Logic.I. left. split; [reflexivity|]. split; [reflexivity|].
    unfold NameValid.Valid. cbn. repeat split; try lia; repeat constructor; cbn; try lia; discriminate.
  - split; [vm_compute; reflexivity|]. eexists. split; [vm_compute; reflexivity|]. discriminate.
Qed.
