(* dns.edns.option_from_wire, the direct option API (no ExceptionWrapper around it): every option
   class of dns/edns.py on every octet string: an option, a FormError-family error, the
   dns.exception.SyntaxError of dns.ipv4.inet_ntoa (ECS, more than four IPv4 address octets), or the
   ValueError the option constructors document and tests/test_edns.py pins (ECS family / prefix
   lengths, COOKIE lengths) - never struct.error, IndexError, UnicodeDecodeError. *)
From DV Require Import Base.Prelude Model.NameM Model.ParserM Model.UntrustedM
                       Proofs.NameValid Proofs.ParserSafe Proofs.ParserProg Proofs.UntrustedSafe.
Open Scope Z_scope.

Section Edns.
  Variable wire : list Z.
  Hypothesis Hwire : bytes_ok wire.

  Definition okx {A} (r : out A * pstate) : Prop :=
    match fst r with
    | Val _ => True
    | Exn (XLib e) => is_form e = true \/ e = eSyntax
    | Exn (XInt e) => e = iValueError
    end.

  Lemma okx_bind {A B} lo (P : Z -> Prop) s (m : M A) (k : A -> M B) (Q : A -> pstate -> Prop) :
    good wire lo P s (m s) Q -> (forall e, P e -> is_form e = true) ->
    (forall a s1, wfl wire lo s1 -> pend s1 = pend s -> pfur s <= pfur s1 -> Q a s1 -> okx (k a s1)) ->
    okx (mbind m k s).
  Proof.
    unfold mbind, good, okx. destruct (m s) as [[a|[e|e]] s1]; intros G HP K; cbn [fst].
    - destruct G as (W & E & F & HQ). apply (K a s1 W E F HQ).
    - left. apply HP. tauto.
    - contradiction.
  Qed.

  Lemma form_is e : isForm e -> is_form e = true.
  Proof. intros ->. reflexivity. Qed.
  Lemma nameerr_is e : isNameErr e -> is_form e = true.
  Proof. apply nameerr_form. Qed.

  Lemma okx_ret {A} (a : A) s : okx (ret a s).
  Proof. exact Logic.I. Qed.

  Lemma okx_dec_option lo otype s : 0 <= lo -> wfl wire lo s -> pcur s <= pend s -> okx (dec_option wire otype s).
  Proof.
    intros Hlo W Hle. unfold dec_option.
    repeat match goal with |- okx ((if ?b then _ else _) _) => destruct b end.
    - (* ECS *)
      unfold dec_ecs.
      eapply okx_bind; [apply good_get_struct; [exact Hwire|exact Hlo|exact W|repeat (constructor; [lia|]); constructor]|apply form_is|].
      intros vs s1 W1 _ _ (Hl & Hnn & _).
      destruct vs as [|family [|src [|scope [|? ?]]]]; cbn in Hl; try discriminate.
      inversion Hnn as [|? ? _ H2]; subst. inversion H2 as [|? ? Hsrc _]; subst.
      eapply okx_bind; [apply good_get_bytes; [exact Hwire|exact Hlo|exact W1|apply Z.div_pos; lia]|apply form_is|].
      intros _ s2 _ _ _ _.
      repeat match goal with |- okx ((if ?b then _ else _) _) => destruct b end;
        cbn; auto.
    - (* COOKIE *)
      unfold dec_cookie.
      eapply okx_bind; [apply good_get_bytes; [exact Hwire|exact Hlo|exact W|lia]|apply form_is|].
      intros _ s1 W1 _ _ (_ & _ & _ & Hc & _).
      eapply okx_bind; [apply good_get_remaining; [exact Hwire|exact Hlo|exact W1|lia]|apply form_is|].
      intros server s2 _ _ _ _.
      match goal with |- okx ((if ?b then _ else _) _) => destruct b end; cbn; auto.
    - (* EDE *)
      unfold dec_ede, get_uint16.
      eapply okx_bind; [apply good_get_uint; [exact Hwire|exact Hlo|exact W|lia]|apply form_is|].
      intros _ s1 W1 _ _ (_ & _ & Hc & _).
      eapply okx_bind; [apply good_get_remaining; [exact Hwire|exact Hlo|exact W1|lia]|apply form_is|].
      intros [|? ?] s2 _ _ _ _; [exact Logic.I|].
      match goal with |- okx ((if ?b then _ else _) _) => destruct b end; cbn; auto.
    - (* REPORTCHANNEL *)
      eapply okx_bind; [apply good_get_name; [exact Hwire|exact Hlo|exact W]|apply nameerr_is|]. intros; exact Logic.I.
    - (* the text options *)
      unfold dec_text_option.
      eapply okx_bind; [apply good_get_remaining; [exact Hwire|exact Hlo|exact W|exact Hle]|apply form_is|].
      intros text s2 _ _ _ _.
      match goal with |- okx ((if ?b then _ else _) _) => destruct b end; cbn; auto.
    - (* NSID, GenericOption *)
      eapply okx_bind; [apply good_get_remaining; [exact Hwire|exact Hlo|exact W|exact Hle]|apply form_is|]. intros; exact Logic.I.
  Qed.

  Lemma okx_restrict_to {A} lo size (body : M A) s :
    0 <= lo -> 0 <= size -> wfl wire lo s ->
    (forall s0, wfl wire lo s0 -> pcur s0 <= pend s0 -> okx (body s0)) ->
    okx (restrict_to size body s).
  Proof.
    intros Hlo Hs (Hc & He & Hf) Hb. unfold restrict_to.
    replace (size <? 0) with false by lia.
    destruct (size >? remaining s) eqn:E; [left; reflexivity|].
    unfold remaining in E.
    specialize (Hb (set_end s (pcur s + size))).
    assert (W0 : wfl wire lo (set_end s (pcur s + size))) by (unfold wfl, set_end; cbn; lia).
    specialize (Hb W0 ltac:(cbn; lia)). unfold okx in *.
    destruct (body (set_end s (pcur s + size))) as [[a|x] s1]; cbn [fst] in *.
    - destruct (pcur s1 =? pend s1); cbn; auto.
    - exact Hb.
  Qed.

  (* dns.edns.option_from_wire(otype, wire, current, olen) *)
  Theorem option_from_wire_outcome otype current olen : 0 <= olen ->
    match fst (option_from_wire wire otype current olen) with
    | Val _ => True
    | Exn (XLib e) => is_form e = true \/ e = eSyntax
    | Exn (XInt e) => e = iValueError
    end.
  Proof.
    intros Ho. unfold option_from_wire.
    pose proof (parser_init_spec wire current) as Hi.
    destruct (parser_init wire current) as [s0|x]; [|subst x; left; reflexivity].
    destruct Hi as (W & _ & _ & Hle & _).
    apply (okx_restrict_to 0 olen (dec_option wire otype) s0); [lia|exact Ho|exact W|].
    intros s1 W1 H1. apply (okx_dec_option 0); [lia|exact W1|exact H1].
  Qed.
End Edns.
