(* dns.edns.option_from_wire, the direct option API (no ExceptionWrapper around it): every option
   class of dns/edns.py on every octet string: an option, a FormError-family error, the
   dns.exception.SyntaxError of dns.ipv4.inet_ntoa (ECS, more than four IPv4 address octets), or the
   ValueError the option constructors document and tests/test_edns.py pins (ECS family / prefix
   lengths, COOKIE lengths) - never struct.error, IndexError, UnicodeDecodeError. *)
From DV Require Import Base.Prelude Model.NameM Model.ParserM Model.UntrustedM
                       Proofs.NameValid Proofs.ParserSafe Proofs.ParserProg Proofs.UntrustedSafe.
From DV Require Proofs.UntrustedDec.
Open Scope Z_scope.

Section Edns.
  Variable wire : list Z.
  Hypothesis Hwire : bytes_ok wire.

  Definition okx {A} (r : out A * pstate) : Prop :=
    match fst r with
    | Val _ => True
    | Exn (XLib e) => is_form e = true \/ e = eSyntax
    | Exn (XInt e) => e = iValueError
    end.

  Lemma okx_bind {A B} lo (P : Z -> Prop) s (m : M A) (k : A -> M B) (Q : A -> pstate -> Prop) :
    good wire lo P s (m s) Q -> (forall e, P e -> is_form e = true) ->
    (forall a s1, wfl wire lo s1 -> pend s1 = pend s -> pfur s <= pfur s1 -> Q a s1 -> okx (k a s1)) ->
    okx (mbind m k s).
  Proof.
    unfold mbind, good, okx. destruct (m s) as [[a|[e|e]] s1]; intros G HP K; cbn [fst].
    - destruct G as (W & E & F & HQ). apply (K a s1 W E F HQ).
    - left. apply HP. tauto.
    - contradiction.
  Qed.

  Lemma form_is e : isForm e -> is_form e = true.
  Proof. intros ->. reflexivity. Qed.
  Lemma nameerr_is e : isNameErr e -> is_form e = true.
  Proof. apply nameerr_form. Qed.

  Lemma okx_ret {A} (a : A) s : okx (ret a s).
  Proof. exact Logic.I. Qed.

  Lemma okx_dec_option lo otype s : 0 <= lo -> wfl wire lo s -> pcur s <= pend s -> okx (dec_option wire otype s).
  Proof.
    intros Hlo W Hle. unfold dec_option.
    repeat match goal with |- okx ((if ?b then _ else _) _) => destruct b end.
    - (* ECS *)
      unfold dec_ecs.
      eapply okx_bind; [apply good_get_struct; [exact Hwire|exact Hlo|exact W|repeat (constructor; [lia|]); constructor]|apply form_is|].
      intros vs s1 W1 _ _ (Hl & Hnn & _).
      destruct vs as [|family [|src [|scope [|? ?]]]]; cbn in Hl; try discriminate.
      inversion Hnn as [|? ? _ H2]; subst. inversion H2 as [|? ? Hsrc _]; subst.
      eapply okx_bind; [apply good_get_bytes; [exact Hwire|exact Hlo|exact W1|apply Z.div_pos; lia]|apply form_is|].
      intros _ s2 _ _ _ _.
      repeat match goal with |- okx ((if ?b then _ else _) _) => destruct b end;
        cbn; auto.
    - (* COOKIE *)
      unfold dec_cookie.
      eapply okx_bind; [apply good_get_bytes; [exact Hwire|exact Hlo|exact W|lia]|apply form_is|].
      intros _ s1 W1 _ _ (_ & _ & _ & Hc & _).
      eapply okx_bind; [apply good_get_remaining; [exact Hwire|exact Hlo|exact W1|lia]|apply form_is|].
      intros server s2 _ _ _ _.
      match goal with |- okx ((if ?b then _ else _) _) => destruct b end; cbn; auto.
    - (* EDE *)
      unfold dec_ede, get_uint16.
      eapply okx_bind; [apply good_get_uint; [exact Hwire|exact Hlo|exact W|lia]|apply form_is|].
      intros _ s1 W1 _ _ (_ & _ & Hc & _).
      eapply okx_bind; [apply good_get_remaining; [exact Hwire|exact Hlo|exact W1|lia]|apply form_is|].
      intros [|? ?] s2 _ _ _ _; [exact Logic.I|].
      match goal with |- okx ((if ?b then _ else _) _) => destruct b end; cbn; auto.
    - (* REPORTCHANNEL *)
      eapply okx_bind; [apply good_get_name; [exact Hwire|exact Hlo|exact W]|apply nameerr_is|]. intros; exact Logic.I.
    - (* the text options *)
      unfold dec_text_option.
      eapply okx_bind; [apply good_get_remaining; [exact Hwire|exact Hlo|exact W|exact Hle]|apply form_is|].
      intros text s2 _ _ _ _.
      match goal with |- okx ((if ?b then _ else _) _) => destruct b end; cbn; auto.
    - (* NSID, GenericOption *)
      eapply okx_bind; [apply good_get_remaining; [exact Hwire|exact Hlo|exact W|exact Hle]|apply form_is|]. intros; exact Logic.I.
  Qed.

  Lemma okx_restrict_to {A} lo size (body : M A) s :
    0 <= lo -> 0 <= size -> wfl wire lo s ->
    (forall s0, wfl wire lo s0 -> pcur s0 <= pend s0 -> okx (body s0)) ->
    okx (restrict_to size body s).
  Proof.
    intros Hlo Hs (Hc & He & Hf) Hb. unfold restrict_to.
    replace (size <? 0) with false by lia.
    destruct (size >? remaining s) eqn:E; [left; reflexivity|].
    unfold remaining in E.
    specialize (Hb (set_end s (pcur s + size))).
    assert (W0 : wfl wire lo (set_end s (pcur s + size))) by (unfold wfl, set_end; cbn; lia).
    specialize (Hb W0 ltac:(cbn; lia)). unfold okx in *.
    destruct (body (set_end s (pcur s + size))) as [[a|x] s1]; cbn [fst] in *.
    - destruct (pcur s1 =? pend s1); cbn; auto.
    - exact Hb.
  Qed.

  (* dns.edns.option_from_wire(otype, wire, current, olen) *)
  Theorem option_from_wire_outcome otype current olen : 0 <= olen ->
    match fst (option_from_wire wire otype current olen) with
    | Val _ => True
    | Exn (XLib e) => is_form e = true \/ e = eSyntax
    | Exn (XInt e) => e = iValueError
    end.
  Proof.
    intros Ho. unfold option_from_wire.
    pose proof (parser_init_spec wire current) as Hi.
    destruct (parser_init wire current) as [s0|x]; [|subst x; left; reflexivity].
    destruct Hi as (W & _ & _ & Hle & _).
    apply (okx_restrict_to 0 olen (dec_option wire otype) s0); [lia|exact Ho|exact W|].
    intros s1 W1 H1. apply (okx_dec_option 0); [lia|exact W1|exact H1].
  Qed.

  (* ---------- the loops of the OPT and TXT wire parsers terminate ----------
     Inside dns.rdata.from_wire_parser the per-type parser runs under ExceptionWrapper(FormError),
     which would turn the model's fuel marker into a FormError; here it is excluded at its source. *)
  Definition nofuel {A} (r : out A * pstate) : Prop := fst r <> Exn (XInt iFuel).

  Lemma good_get_counted_strict lo k s :
    0 <= lo -> wfl wire lo s -> 0 <= k ->
    good wire lo isForm s (get_counted_bytes wire k s) (fun l s' => pcur s + k <= pcur s' /\ pcur s' <= pend s').
  Proof.
    intros Hlo W Hk. unfold get_counted_bytes.
    eapply good_bind; [apply good_get_bytes; auto|].
    intros lb s1 W1 E1 F1 (Hl & Hb & Hc & Hle & Hfu).
    eapply good_weaken; [apply good_get_bytes; auto; apply be_decode_nonneg; auto| auto |].
    intros l s2 W2 E2 F2 (Hl2 & Hb2 & Hc2 & Hle2 & Hfu2).
    pose proof (be_decode_nonneg lb Hb). split; lia.
  Qed.

  Lemma txt_loop_nofuel lo : 0 <= lo -> forall fuel n s, wfl wire lo s ->
    (Z.to_nat (remaining s) < fuel)%nat -> nofuel (txt_loop wire fuel n s).
  Proof.
    intros Hlo. induction fuel as [|f IH]; intros n s W Hf; [lia|]. cbn [txt_loop].
    destruct (remaining s >? 0) eqn:Er; [|unfold nofuel; cbn; discriminate].
    pose proof (good_get_counted_strict lo 1 s Hlo W ltac:(lia)) as G. unfold mbind, good in *.
    destruct (get_counted_bytes wire 1 s) as [[l|[e|e]] s1].
    - destruct G as (W1 & E1 & _ & Hc & Hle). apply IH; [exact W1|].
      unfold remaining in *. lia.
    - unfold nofuel; cbn; discriminate.
    - contradiction.
  Qed.

  Theorem dec_txt_terminates lo s : 0 <= lo -> wfl wire lo s -> nofuel (dec_txt wire s).
  Proof.
    intros Hlo W. unfold dec_txt, mbind.
    pose proof (txt_loop_nofuel lo Hlo (S (Z.to_nat (remaining s))) 0%nat s W ltac:(lia)) as N.
    unfold nofuel in *. destruct (txt_loop wire (S (Z.to_nat (remaining s))) 0 s) as [[n|x] s1]; cbn [fst] in *.
    - destruct n; cbn; discriminate.
    - intros X. apply N. inversion X. reflexivity.
  Qed.

  Lemma restrict_to_val_position {A} lo size (body : M A) s a s' :
    0 <= lo -> tame wire lo body -> wfl wire lo s ->
    restrict_to size body s = (Val a, s') ->
    0 <= size /\ pcur s' = pcur s + size /\ pend s' = pend s /\ wfl wire lo s' /\ pcur s' <= pend s'.
  Proof.
    intros Hlo T (Hc & He & Hf). unfold restrict_to. destruct (size <? 0) eqn:E0; [discriminate|].
    destruct (size >? remaining s) eqn:E1; [discriminate|]. unfold remaining in E1.
    apply Z.ltb_ge in E0. rewrite Z.gtb_ltb in E1. apply Z.ltb_ge in E1.
    assert (W0 : wfl wire lo (set_end s (pcur s + size))) by (unfold wfl, set_end; cbn; lia).
    destruct (T _ W0) as (W1 & P1 & F1).
    destruct (body (set_end s (pcur s + size))) as [[b|x] s1] eqn:Eb; [|discriminate].
    cbn [snd] in *. destruct (pcur s1 =? pend s1) eqn:Ec; [|discriminate].
    intros X; inversion X; subst. cbn in *. destruct W1 as (A1 & A2 & A3).
    split; [lia|]. split; [lia|]. split; [reflexivity|]. split; [unfold wfl; cbn; lia|lia].
  Qed.

  Lemma opt_loop_nofuel lo : 0 <= lo -> forall fuel s, wfl wire lo s -> pcur s <= pend s ->
    (Z.to_nat (remaining s) < fuel)%nat -> nofuel (opt_loop wire fuel s).
  Proof.
    intros Hlo. induction fuel as [|f IH]; intros s W Hle Hf; [lia|]. cbn [opt_loop].
    destruct (remaining s >? 0) eqn:Er; [|unfold nofuel; cbn; discriminate].
    pose proof (good_get_struct wire Hwire lo [2; 2] s Hlo W ltac:(repeat (constructor; [lia|]); constructor)) as G.
    unfold mbind at 1. unfold good in G.
    destruct (get_struct wire [2; 2] s) as [[vs|[e|e]] s1]; [|unfold nofuel; cbn; discriminate|contradiction].
    destruct G as (W1 & E1 & _ & Hl & Hnn & Hc & Hle1 & _).
    destruct vs as [|otype [|olen [|? ?]]]; cbn in Hl; try discriminate.
    assert (Holen : 0 <= olen) by (inversion Hnn as [|? ? _ H2]; subst; inversion H2; subst; assumption).
    unfold mbind.
    destruct (restrict_to olen (dec_option wire otype) s1) as [[u|x] s2] eqn:Er2.
    - destruct (@restrict_to_val_position _ lo olen _ s1 u s2 Hlo
                  (UntrustedDec.tame_dec_option wire Hwire lo otype Hlo) W1 Er2) as (Ho & Hp & He & W2 & Hle2).
      apply IH; [exact W2|exact Hle2|]. unfold remaining in *. cbn in Hc. lia.
    - (* the option parser raised: the loop ends with that exception, which is not the fuel marker *)
      assert (O : okx (restrict_to olen (dec_option wire otype) s1)).
      { apply (okx_restrict_to lo); auto. intros s0 W0 H0. apply (okx_dec_option lo); auto. }
      rewrite Er2 in O. unfold okx in O. cbn [fst] in O. unfold nofuel. cbn [fst].
      destruct x as [e|e]; [discriminate|]. subst e. discriminate.
  Qed.

  Theorem dec_opt_terminates lo s : 0 <= lo -> wfl wire lo s -> pcur s <= pend s -> nofuel (dec_opt wire s).
  Proof. intros Hlo W Hle. unfold dec_opt. apply (opt_loop_nofuel lo); auto. Qed.
End Edns.

Theorem wire_loops_terminate wire : bytes_ok wire -> forall (lo : Z) (s : pstate),
  0 <= lo -> wfl wire lo s -> pcur s <= pend s ->
  fst (dec_opt wire s) <> Exn (XInt iFuel) /\ fst (dec_txt wire s) <> Exn (XInt iFuel).
Proof.
  intros Hw lo s Hlo W Hle. split.
  - apply (dec_opt_terminates wire Hw lo s Hlo W Hle).
  - apply (dec_txt_terminates wire Hw lo s Hlo W).
Qed.
