(* Byte-identical re-encoding of ARBITRARY accepted octets, for field lists without normalising
   fields (no names - compression pointers are expanded -, no optional tail): decode then encode is
   the identity on the RDATA octets. *)
From DV Require Import Base.Prelude Model.NameM Model.SchemaM Proofs.SchemaName Proofs.SchemaCodec Proofs.SchemaThm.
Open Scope Z_scope.

Definition slice (w : list Z) (a b : nat) : list Z := firstn (b - a) (skipn a w).

Lemma slice_length : forall w a b, (a <= b)%nat -> (b <= length w)%nat -> length (slice w a b) = (b - a)%nat.
Proof. intros. unfold slice. rewrite firstn_length, skipn_length. lia. Qed.

Lemma firstn_plus {A} : forall m n (l : list A), firstn (m + n) l = firstn m l ++ firstn n (skipn m l).
Proof.
  induction m as [|m IH]; intros n l; [reflexivity|].
  destruct l as [|x l]; [cbn; rewrite firstn_nil; reflexivity|].
  cbn [Nat.add firstn skipn app]. f_equal. apply IH.
Qed.

Lemma skipn_plus {A} : forall m n (l : list A), skipn m (skipn n l) = skipn (n + m) l.
Proof.
  intros m n. revert m. induction n as [|n IH]; intros m l; [reflexivity|].
  destruct l as [|x l]; [cbn; rewrite skipn_nil; reflexivity|]. cbn [Nat.add skipn]. apply IH.
Qed.

Lemma slice_app : forall w a b c, (a <= b)%nat -> (b <= c)%nat -> slice w a b ++ slice w b c = slice w a c.
Proof.
  intros w a b c H1 H2. unfold slice.
  replace (c - a)%nat with ((b - a) + (c - b))%nat by lia.
  rewrite firstn_plus. f_equal. rewrite skipn_plus. f_equal. f_equal. lia.
Qed.

Lemma slice_nil : forall w a, slice w a a = [].
Proof. intros. unfold slice. rewrite Nat.sub_diag. reflexivity. Qed.

Lemma In_firstn {A} : forall n (l : list A) x, In x (firstn n l) -> In x l.
Proof.
  induction n as [|n IH]; intros l x H; [destruct H|]. destruct l as [|y l]; [destruct H|].
  cbn [firstn] in H. destruct H as [->|H]; [left; reflexivity|right; apply IH; exact H].
Qed.

Lemma In_skipn {A} : forall n (l : list A) x, In x (skipn n l) -> In x l.
Proof.
  induction n as [|n IH]; intros l x H; [exact H|]. destruct l as [|y l]; [destruct H|].
  right. apply IH. exact H.
Qed.

Lemma all_bytes_slice : forall w a b, all_bytes w = true -> all_bytes (slice w a b) = true.
Proof.
  intros w a b H. unfold all_bytes in *. rewrite forallb_forall in *. intros x Hx.
  apply H. unfold slice in Hx. apply In_firstn in Hx. apply In_skipn in Hx. exact Hx.
Qed.

Lemma get_bytes_slice : forall w e c n bs c',
  get_bytes w e c n = Ok (bs, c') -> (c <= e)%nat -> (e <= length w)%nat ->
  c' = (c + n)%nat /\ bs = slice w c c' /\ (c' <= e)%nat /\ length bs = n.
Proof.
  intros w e c n bs c' H Hc He. unfold get_bytes in H.
  destruct (Nat.ltb_spec (e - c) n); [discriminate|]. injection H as <- <-.
  split; [reflexivity|]. split; [unfold slice; f_equal; lia|]. split; [lia|].
  rewrite firstn_length, skipn_length. lia.
Qed.

Definition no_norm_s (f : sfld) : bool := match f with FName _ => false | _ => true end.
Definition no_norm (f : fld) : bool :=
  match f with
  | FS s => no_norm_s s
  | FOptC8 _ => false
  | FRepeat _ _ row => forallb no_norm_s row
  | _ => true
  end.

Section Reenc.
  Variable w : list Z.
  Hypothesis Hw : all_bytes w = true.
  Variable e : nat.
  Hypothesis He : (e <= length w)%nat.

  Lemma dec_s_reenc : forall f c v c',
    no_norm_s f = true -> sfld_wf f = true -> (c <= e)%nat ->
    dec_s w None f e c = Ok (v, c') ->
    enc_s None f v = Ok (slice w c c') /\ (c <= c')%nat /\ (c' <= e)%nat.
  Proof.
    intros [wd m|n|wd lo hi|rel] c v c' Hn Hwf Hc H; cbn [dec_s] in H; try discriminate.
    - inv_bind H. injection H as <- <-. destruct x as [bs c1]. cbn [fst snd].
      apply get_bytes_slice in E as (-> & -> & Hle & Hlen); auto.
      pose proof (all_bytes_slice w c (c + wd) Hw) as Hb.
      pose proof (be_decode_bounds _ Hb) as Hbd. rewrite Hlen in Hbd.
      cbn [enc_s].
      assert (Hr : (0 <=? be_decode (slice w c (c + wd))) && (be_decode (slice w c (c + wd)) <? pow256 wd) = true)
        by (apply andb_true_intro; split; lia).
      rewrite Hr. rewrite <- Hlen at 1. rewrite be_encode_decode by exact Hb. split; [reflexivity|lia].
    - inv_bind H. injection H as <- <-. destruct x as [bs c1]. cbn [fst snd].
      apply get_bytes_slice in E as (-> & -> & Hle & Hlen); auto. cbn [enc_s]. split; [reflexivity|lia].
    - inv_bind H. inv_bind H. injection H as <- <-. destruct x as [lb c1], x0 as [bs c2]. cbn [fst snd] in *.
      apply get_bytes_slice in E as (-> & -> & Hle1 & Hlen1); auto.
      apply get_bytes_slice in E0 as (-> & -> & Hle2 & Hlen2); auto.
      pose proof (all_bytes_slice w c (c + wd) Hw) as Hb.
      pose proof (be_decode_bounds _ Hb) as Hbd. rewrite Hlen1 in Hbd.
      set (len := be_decode (slice w c (c + wd))) in *.
      cbn [enc_s].
      assert (Hz : zlen (slice w (c + wd) (c + wd + Z.to_nat len)) = len) by (unfold zlen; rewrite Hlen2; lia).
      rewrite Hz. replace (len <? pow256 wd) with true by lia.
      unfold len. rewrite <- Hlen1 at 1. rewrite be_encode_decode by exact Hb.
      rewrite slice_app by lia. split; [reflexivity|lia].
  Qed.

  Lemma dec_row_reenc : forall fs c vs c',
    forallb no_norm_s fs = true -> forallb sfld_wf fs = true -> (c <= e)%nat ->
    dec_row w None fs e c = Ok (vs, c') ->
    enc_row None fs vs = Ok (slice w c c') /\ (c <= c')%nat /\ (c' <= e)%nat.
  Proof.
    induction fs as [|f fr IH]; intros c vs c' Hn Hwf Hc H; cbn [dec_row] in H.
    - injection H as <- <-. cbn. rewrite slice_nil. split; [reflexivity|lia].
    - cbn [forallb] in Hn, Hwf. apply andb_prop in Hn as [N1 N2]. apply andb_prop in Hwf as [W1 W2].
      inv_bind H. inv_bind H. injection H as <- <-. destruct x as [v c1], x0 as [vr c2]. cbn [fst snd] in *.
      apply dec_s_reenc in E as (E1 & L1 & L2); auto.
      apply IH in E0 as (E2 & L3 & L4); auto.
      cbn [enc_row]. rewrite E1, E2. cbn [bind]. rewrite slice_app by lia. split; [reflexivity|lia].
  Qed.

  Lemma dec_rows_reenc : forall fuel row c rows c',
    forallb no_norm_s row = true -> forallb sfld_wf row = true -> (c <= e)%nat ->
    dec_rows w None fuel row e c = Ok (rows, c') ->
    enc_rows None row rows = Ok (slice w c c') /\ (c <= c')%nat /\ (c' <= e)%nat.
  Proof.
    induction fuel as [|f IH]; intros row c rows c' Hn Hwf Hc H; cbn [dec_rows] in H.
    - destruct (Nat.leb_spec e c); [|discriminate]. injection H as <- <-. cbn. rewrite slice_nil. split; [reflexivity|lia].
    - destruct (Nat.leb_spec e c).
      + injection H as <- <-. cbn. rewrite slice_nil. split; [reflexivity|lia].
      + inv_bind H. inv_bind H. injection H as <- <-. destruct x as [r c1], x0 as [rr c2]. cbn [fst snd] in *.
        apply dec_row_reenc in E as (E1 & L1 & L2); auto.
        apply IH in E0 as (E2 & L3 & L4); auto.
        cbn [enc_rows]. rewrite E1, E2. cbn [bind]. rewrite slice_app by lia. split; [reflexivity|lia].
  Qed.

  Lemma dec_f_reenc : forall f c v c',
    no_norm f = true -> last_wf f = true -> (c <= e)%nat ->
    dec_f w None f e c = Ok (v, c') ->
    enc_f None f v = Ok (slice w c c') /\ (c <= c')%nat /\ (c' <= e)%nat.
  Proof.
    intros [s|lo|n|hi|m a row] c v c' Hn Hwf Hc H; cbn [dec_f] in H; cbn [no_norm] in Hn; try discriminate.
    - inv_bind H. injection H as <- <-. destruct x as [x c1]. cbn [fst snd]. cbn [enc_f].
      eapply dec_s_reenc; eauto.
    - inv_bind H. injection H as <- <-. destruct x as [bs c1]. cbn [fst snd].
      apply get_bytes_slice in E as (-> & -> & Hle & Hlen); auto. cbn [enc_f]. split; [reflexivity|lia].
    - inv_bind H. injection H as <- <-. destruct x as [bs c1]. cbn [fst snd].
      apply get_bytes_slice in E as (-> & -> & Hle & Hlen); auto. cbn [enc_f]. split; [reflexivity|lia].
    - inv_bind H. injection H as <- <-. destruct x as [rows c1]. cbn [fst snd]. cbn [enc_f].
      cbn [last_wf] in Hwf. unfold row_wf in Hwf. apply andb_prop in Hwf as [W1 _].
      eapply dec_rows_reenc; eauto.
  Qed.

  Lemma dec_fields_reenc : forall fs c vs c',
    forallb no_norm fs = true -> schema_wf fs = true -> (c <= e)%nat ->
    dec_fields w None fs e c = Ok (vs, c') ->
    enc_fields None fs vs = Ok (slice w c c') /\ (c <= c')%nat /\ (c' <= e)%nat.
  Proof.
    induction fs as [|f fr IH]; intros c vs c' Hn Hwf Hc H; cbn [dec_fields] in H.
    - injection H as <- <-. cbn. rewrite slice_nil. split; [reflexivity|lia].
    - cbn [forallb] in Hn. apply andb_prop in Hn as [N1 N2].
      assert (Hl : last_wf f = true /\ schema_wf fr = true).
      { destruct fr as [|f2 fr'].
        - split; [destruct f; exact Hwf|reflexivity].
        - destruct f as [s| | | |]; try (cbn in Hwf; discriminate).
          cbn [schema_wf] in Hwf. apply andb_prop in Hwf. exact Hwf. }
      destruct Hl as [L1 L2].
      inv_bind H. inv_bind H. injection H as <- <-. destruct x as [v c1], x0 as [vr c2]. cbn [fst snd] in *.
      apply dec_f_reenc in E as (E1 & La & Lb); auto.
      apply IH in E0 as (E2 & Lc & Ld); auto.
      cbn [enc_fields]. rewrite E1, E2. cbn [bind]. rewrite slice_app by lia. split; [reflexivity|lia].
  Qed.
End Reenc.

(* decode-then-encode is the identity on the RDATA octets *)
Theorem schema_reencode_thm : forall fs ck wire cur rdlen vs,
  schema_wf fs = true -> forallb no_norm fs = true -> all_bytes wire = true ->
  decode_rdata None fs ck wire cur rdlen = Ok vs ->
  encode_rdata None fs ck vs = Ok (slice wire cur (cur + rdlen)).
Proof.
  intros fs ck wire cur rdlen vs Hwf Hn Hb Hd.
  pose proof (decode_validates _ _ _ _ _ _ _ Hd) as Hv.
  apply exact_consumption in Hd as [Hlen Hdf].
  unfold encode_rdata. rewrite Hv.
  destruct (dec_fields_reenc wire Hb (cur + rdlen)%nat Hlen fs cur vs (cur + rdlen)%nat Hn Hwf ltac:(lia) Hdf) as (E & _).
  exact E.
Qed.
