(* Rdataset machine: frame property (no aliasing effects), ImmutableRdataset never changes,
   and the TTL of every rdataset is the minimum of the TTLs merged into it since it was last
   empty - by induction over operation sequences, with a ghost history per register. *)
From DV Require Import Base.Prelude Model.SetM Proofs.SetAlg Proofs.SetRdata Proofs.SetMachine
  Proofs.SetRds Proofs.SetRdsMachine.
Open Scope Z_scope.

(* ---------- register file ---------- *)

Lemma nth_set_nth_same {A} (st : list A) r v x :
  nth_error st r = Some x -> nth_error (set_nth st r v) r = Some v.
Proof.
  revert r. induction st as [|y l IH]; intros [|r]; cbn; try discriminate; auto.
Qed.

Lemma nth_set_nth_other {A} (st : list A) r r' v :
  r <> r' -> nth_error (set_nth st r v) r' = nth_error st r'.
Proof.
  revert r r'. induction st as [|y l IH]; intros [|r] [|r'] H; cbn; auto; try congruence.
Qed.

Lemma set_nth_id {A} (st : list A) r x : nth_error st r = Some x -> set_nth st r x = st.
Proof.
  revert r. induction st as [|y l IH]; intros [|r]; cbn; try discriminate.
  - intros E; inversion E; reflexivity.
  - intros E. rewrite IH by exact E. reflexivity.
Qed.

Lemma nth_assign_other {A} (st st' : list A) d v r :
  assign st d v = Some st' -> d <> r -> nth_error st' r = nth_error st r.
Proof.
  unfold assign. destruct (Nat.ltb d (length st)) eqn:E1.
  - intros E H; inversion E; subst. apply nth_set_nth_other, H.
  - destruct (Nat.eqb d (length st)) eqn:E2; [|discriminate].
    apply Nat.eqb_eq in E2. intros E H; inversion E; subst.
    destruct (Nat.lt_ge_cases r (length st)).
    + apply nth_error_app1. assumption.
    + rewrite (proj2 (nth_error_None st r)) by assumption.
      apply nth_error_None. rewrite app_length. cbn. lia.
Qed.

Lemma nth_assign_same {A} (st st' : list A) d v :
  assign st d v = Some st' -> nth_error st' d = Some v.
Proof.
  unfold assign. destruct (Nat.ltb d (length st)) eqn:E1.
  - intros E; inversion E; subst. apply Nat.ltb_lt in E1.
    destruct (nth_error st d) eqn:E2; [eapply nth_set_nth_same, E2|].
    apply nth_error_None in E2. lia.
  - destruct (Nat.eqb d (length st)) eqn:E2; [|discriminate].
    apply Nat.eqb_eq in E2. intros E; inversion E; subst.
    rewrite nth_error_app2 by lia. rewrite Nat.sub_diag. reflexivity.
Qed.

(* the register an operation may write: the bound register of a constructor / copying form,
   or `self` of a mutating method *)
Definition rtarget (op : rop) : option nat :=
  match op with
  | RNew d _ _ _ _ | RNewRR d _ _ _ _ _ | RImm d _ | RToRdataset d _ | RCopy d _ | RFunc _ d _ _
  | RFromList d _ _ _ => Some d
  | RAdd r _ _ | RUpdateTtl r _ | RUpdateTtlText r _ | RAddText r _ _ | RRemove r _ | RDiscard r _
  | RPop r | RClear r | RInpl _ r _ | RDelItem r _ => Some r
  | RPred _ _ _ | RMatch _ _ _ _ | RFullMatch _ _ _ _ _ _ | RLen _ | RIter _ | RContains _ _
  | RGet _ _ => None
  end.

(* registers that are bound anew (the old object is dropped, not mutated) *)
Definition rrebind (op : rop) : option nat :=
  match op with
  | RNew d _ _ _ _ | RNewRR d _ _ _ _ _ | RImm d _ | RToRdataset d _ | RCopy d _ | RFunc _ d _ _
  | RFromList d _ _ _ => Some d
  | _ => None
  end.

(* no operation changes a set it does not name as its target: in particular `other` is never
   modified, whatever the aliasing between the registers *)
Theorem rstep_frame st op r :
  rtarget op <> Some r -> nth_error (fst (rstep st op)) r = nth_error st r.
Proof.
  intros Ht.
  destruct op; cbn [rstep rtarget] in *; unfold bad, upd;
    repeat dm; cbn [fst]; try reflexivity;
    try (apply nth_set_nth_other; congruence);
    try (eapply nth_assign_other; [eassumption|congruence]).
Qed.

Lemma option_eq_dec_nat (a b : option nat) : {a = b} + {a <> b}.
Proof. decide equality. apply Nat.eq_dec. Qed.

(* an ImmutableRdataset is never modified: whatever is called on it or with it, the object
   in the register stays the same until the register is bound to a new object *)
Theorem imm_unchanged st op r s :
  nth_error st r = Some s -> kd s = KImm -> rrebind op <> Some r ->
  nth_error (fst (rstep st op)) r = Some s.
Proof.
  intros Hs Hk Hb.
  destruct (option_eq_dec_nat (rtarget op) (Some r)) as [Ht|Ht].
  2:{ rewrite rstep_frame by exact Ht. exact Hs. }
  destruct op; cbn [rtarget rrebind] in *; try congruence; inversion Ht; subst;
    cbn [rstep]; rewrite ?Hs, ?Hk; cbn [fst]; try exact Hs.
  (* RInpl on an immutable self *)
  destruct (nth_error st o) as [os|]; cbn [fst]; [|exact Hs].
  unfold upd, r_inplace. rewrite Hk. cbn [fst]. rewrite (set_nth_id st r s Hs). exact Hs.
Qed.

(* ---------- TTL ---------- *)

(* minimum of a non-empty list *)
Fixpoint list_min (d : Z) (l : list Z) : Z :=
  match l with
  | [] => d
  | x :: r => Z.min x (list_min d r)
  end.

Definition hmin (h : list Z) : Z := match h with [] => 0 | x :: r => list_min x r end.

Lemma list_min_cons d x r : list_min d (x :: r) = Z.min x (list_min d r).
Proof. reflexivity. Qed.

Lemma list_min_swap x y r : Z.min y (list_min x r) = Z.min x (list_min y r).
Proof. induction r as [|z r IH]; cbn [list_min]; lia. Qed.

Lemma hmin_cons x h : h <> [] -> hmin (x :: h) = Z.min x (hmin h).
Proof.
  destruct h as [|y r]; [congruence|]. intros _. cbn [hmin list_min]. apply list_min_swap.
Qed.

Lemma hmin_app a b : a <> [] -> b <> [] -> hmin (a ++ b) = Z.min (hmin a) (hmin b).
Proof.
  intros Ha Hb. induction a as [|x a IH]; [congruence|].
  destruct a as [|y a'].
  - cbn [app]. rewrite hmin_cons by exact Hb. reflexivity.
  - change ((x :: y :: a') ++ b) with (x :: ((y :: a') ++ b)).
    rewrite hmin_cons by (cbn; discriminate).
    rewrite IH by discriminate. rewrite (hmin_cons x (y :: a')) by discriminate. lia.
Qed.

(* The ghost: for every register the list of TTL literals merged into the set since the last
   merge that found it empty (newest first).  It is computed next to the real step from the
   pre-state only; it does not influence the step.
     merge1 : one literal TTL is merged (add(rd, ttl), update_ttl(ttl))
     mergeh : the TTL of another set is merged (union/intersection/update/symmetric difference):
              all the literals that flowed into that set flow into this one *)
Definition merge1 (s : rds) (h : list Z) (t : Z) : list Z := if isempty s then [t] else t :: h.
Definition mergeh (s : rds) (h ho : list Z) : list Z := if isempty s then ho else ho ++ h.

Definition alg_merges (a : alg) : bool := match a with ADiff => false | _ => true end.
Definition inplace_merges (w : inplace) : bool :=
  match inplace_alg w with Some a => alg_merges a | None => true end.

Definition hget (h : list (list Z)) (r : nat) : list Z := nth r h [].

Definition is_mutable (s : rds) : bool := match kd s with KImm => false | _ => true end.

Definition gstep (st : list rds) (h : list (list Z)) (op : rop) : list (list Z) :=
  let ok := match snd (rstep st op) with E _ => false | _ => true end in
  match op with
  | RNew d _ _ _ t0 => match assign h d [t0] with Some h' => if ok then h' else h | None => h end
  | RNewRR d _ _ _ _ _ => match assign h d [0] with Some h' => if ok then h' else h | None => h end
  | RFromList d _ t _ => match assign h d [t] with Some h' => if ok then h' else h | None => h end
  | RImm d r | RCopy d r | RToRdataset d r =>
      match assign h d (hget h r) with Some h' => if ok then h' else h | None => h end
  | RAdd r x (Some t) =>
      match nth_error st r with
      | Some s => if is_mutable s && (cls s =? rcls x) && (typ s =? rtyp x)
                  then set_nth h r (merge1 s (hget h r) t) else h
      | None => h
      end
  | RUpdateTtl r t =>
      match nth_error st r with
      | Some s => if is_mutable s then set_nth h r (merge1 s (hget h r) t) else h
      | None => h
      end
  | RUpdateTtlText r txt =>
      match nth_error st r, TokM.ttl_from_text txt with
      | Some s, Ok t => if is_mutable s then set_nth h r (merge1 s (hget h r) t) else h
      | _, _ => h
      end
  | RAddText r x txt =>
      match nth_error st r, TokM.ttl_from_text txt with
      | Some s, Ok t => if is_mutable s && (cls s =? rcls x) && (typ s =? rtyp x)
                        then set_nth h r (merge1 s (hget h r) t) else h
      | _, _ => h
      end
  | RInpl w r o =>
      match nth_error st r, nth_error st o with
      | Some s, Some _ =>
          if is_mutable s && inplace_merges w && negb (Nat.eqb r o)
          then set_nth h r (mergeh s (hget h r) (hget h o)) else h
      | _, _ => h
      end
  | RFunc w d r o =>
      match nth_error st r with
      | Some s =>
          let hd := if alg_merges (func_alg w) then mergeh s (hget h r) (hget h o) else hget h r in
          match assign h d hd with Some h' => if ok then h' else h | None => h end
      | None => h
      end
  | _ => h
  end.

(* the invariant: histories are non-empty and the TTL is their minimum *)
Definition ttl_ok (s : rds) (hs : list Z) : Prop := hs <> [] /\ ttl s = hmin hs.
Definition ttl_inv (st : list rds) (h : list (list Z)) : Prop := Forall2 ttl_ok st h.

Lemma Forall2_nth {A B} (P : A -> B -> Prop) l1 l2 n x d :
  Forall2 P l1 l2 -> nth_error l1 n = Some x -> P x (nth n l2 d).
Proof.
  intros H. revert n. induction H; intros [|n]; cbn; try discriminate.
  - intros E; inversion E; subst. assumption.
  - apply IHForall2.
Qed.

Lemma Forall2_set_nth {A B} (P : A -> B -> Prop) l1 l2 n x y :
  Forall2 P l1 l2 -> P x y -> Forall2 P (set_nth l1 n x) (set_nth l2 n y).
Proof.
  intros H Hxy. revert n. induction H; intros n; cbn; [constructor|].
  destruct n; constructor; auto.
Qed.

Lemma Forall2_set_nth_l {A B} (P : A -> B -> Prop) l1 l2 n x :
  Forall2 P l1 l2 -> (forall y, nth_error l2 n = Some y -> P x y) -> Forall2 P (set_nth l1 n x) l2.
Proof.
  intros H. revert n. induction H; intros n Hy; cbn; [constructor|].
  destruct n; constructor; auto.
Qed.

Lemma Forall2_len {A B} (P : A -> B -> Prop) l1 l2 : Forall2 P l1 l2 -> length l1 = length l2.
Proof. induction 1; cbn; congruence. Qed.

Lemma Forall2_assign {A B} (P : A -> B -> Prop) l1 l2 d x y l1' :
  Forall2 P l1 l2 -> P x y -> assign l1 d x = Some l1' ->
  exists l2', assign l2 d y = Some l2' /\ Forall2 P l1' l2'.
Proof.
  intros H Hxy. unfold assign. rewrite <- (Forall2_len _ _ _ H).
  destruct (Nat.ltb d (length l1)).
  - intros E; inversion E; subst. eexists. split; [reflexivity|]. apply Forall2_set_nth; assumption.
  - destruct (Nat.eqb d (length l1)); [|discriminate].
    intros E; inversion E; subst. eexists. split; [reflexivity|].
    apply Forall2_app; [assumption|constructor; [assumption|constructor]].
Qed.

Lemma nth_error_nth {A} (l : list A) n x d : nth_error l n = Some x -> nth n l d = x.
Proof. revert n. induction l; intros [|n]; cbn; try discriminate; [congruence|auto]. Qed.

Lemma ttl_ok_fields s s' hs :
  ttl s' = ttl s -> ttl_ok s hs -> ttl_ok s' hs.
Proof. intros E [H1 H2]. split; [exact H1|congruence]. Qed.

Lemma ttl_ok_merge1 s hs t : ttl_ok s hs -> ttl_ok (update_ttl s t) (merge1 s hs t).
Proof.
  intros [H1 H2]. unfold ttl_ok, merge1. rewrite update_ttl_ttl.
  destruct (isempty s); [split; [discriminate|reflexivity]|].
  split; [discriminate|]. rewrite hmin_cons by exact H1. lia.
Qed.

Lemma ttl_ok_mergeh s hs o ho :
  ttl_ok s hs -> ttl_ok o ho -> ttl_ok (update_ttl s (ttl o)) (mergeh s hs ho).
Proof.
  intros [H1 H2] [H3 H4]. unfold ttl_ok, mergeh. rewrite update_ttl_ttl.
  destruct (isempty s); [split; assumption|].
  split; [destruct ho; [congruence|discriminate]|].
  rewrite hmin_app by assumption. lia.
Qed.

(* the TTL produced by each method, as a function of the pre-state *)
Lemma radd_ttl s x ottl :
  ttl (fst (radd s x ottl)) =
  if (cls s =? rcls x) && (typ s =? rtyp x)
  then ttl (match ottl with Some t => update_ttl s t | None => s end) else ttl s.
Proof.
  destruct (compat_dec s x) as [Hc|Hc].
  - destruct Hc as [H1 H2]. rewrite <- H1, <- H2, !Z.eqb_refl. cbn [andb].
    destruct (cov_ok_dec s x) as [Ho|Ho].
    + destruct (radd_accepts s x ottl (conj H1 H2) Ho) as (s' & E & _ & Et & _). rewrite E. cbn [fst].
      rewrite Et. destruct (s1_fields s ottl) as (_&_&_&_&_&_&_&_&Ettl). cbv zeta in Ettl. congruence.
    + rewrite (radd_refuses_covers s x ottl (conj H1 H2) Ho). reflexivity.
  - rewrite (radd_refuses_type s x ottl Hc). cbn [fst].
    destruct (cls s =? rcls x) eqn:E1; [|reflexivity].
    destruct (typ s =? rtyp x) eqn:E2; [|reflexivity].
    apply Z.eqb_eq in E1, E2. exfalso. apply Hc. split; congruence.
Qed.

Lemma radd_none_ttl s x : ttl (fst (radd s x None)) = ttl s.
Proof. rewrite radd_ttl. destruct ((cls s =? rcls x) && (typ s =? rtyp x)); reflexivity. Qed.

Lemma radd_all_ttl l : forall s, ttl (fst (radd_all s l)) = ttl s.
Proof.
  induction l as [|x l IH]; intros s; cbn; [reflexivity|].
  pose proof (radd_none_ttl s x) as H.
  destruct (radd s x None) as [s' [[]| |]]; cbn [fst] in *; try exact H.
  rewrite IH. exact H.
Qed.

Lemma ralg_ttl a self other same :
  (same = true -> other = self) ->
  ttl (fst (ralg a self other same)) =
  if alg_merges a && negb same then ttl (update_ttl self (ttl other)) else ttl self.
Proof.
  intros Hsame. destruct same.
  - rewrite (Hsame eq_refl), ralg_aliased. cbn. rewrite andb_false_r. reflexivity.
  - rewrite andb_true_r. destruct a; cbn [ralg alg_merges].
    + unfold r_union_update. apply radd_all_ttl.
    + rewrite r_inter_update_spec. reflexivity.
    + reflexivity.
    + unfold r_sym_update.
      pose proof (radd_all_ttl (items other) (update_ttl self (ttl other))) as H.
      unfold r_union_update.
      destruct (radd_all (update_ttl self (ttl other)) (items other)) as [s1 [[]| |]];
        cbn [fst] in *; exact H.
Qed.

Lemma r_update_ttl self other same :
  (same = true -> other = self) ->
  ttl (fst (r_update self other same)) =
  if negb same then ttl (update_ttl self (ttl other)) else ttl self.
Proof.
  intros Hsame. unfold r_update. rewrite radd_all_ttl. destruct same; cbn [negb].
  - rewrite update_ttl_self. reflexivity.
  - reflexivity.
Qed.

Lemma rclone_ttl s : ttl (rclone s) = ttl s /\ isempty (rclone s) = isempty s.
Proof. unfold rclone. destruct (kd s); split; reflexivity. Qed.

Lemma r_func_ttl w self other x :
  r_func w self other = Ok x ->
  ttl x = if alg_merges (func_alg w) then ttl (update_ttl self (ttl other)) else ttl self.
Proof.
  unfold r_func.
  pose proof (ralg_ttl (func_alg w) (rclone self) other false) as H.
  destruct (ralg (func_alg w) (rclone self) other false) as [obj [[]| |]]; try discriminate.
  intros E; inversion E; subst. cbn [fst] in H.
  assert (Hx : ttl (match kd self with KImm => rimm obj | _ => obj end) = ttl obj)
    by (destruct (kd self); reflexivity).
  rewrite Hx, H by discriminate. rewrite andb_true_r.
  destruct (rclone_ttl self) as [E1 E2].
  destruct (alg_merges (func_alg w)); [|exact E1].
  rewrite !update_ttl_ttl, E1, E2. reflexivity.
Qed.

Lemma r_from_list_ttl n t xs x : r_from_list n t xs = Ok x -> ttl x = t.
Proof.
  unfold r_from_list. destruct xs as [|rd0 l]; [discriminate|].
  set (r0 := update_ttl _ _).
  pose proof (radd_all_ttl (rd0 :: l) r0) as H.
  destruct (radd_all r0 (rd0 :: l)) as [r [[]| |]]; try discriminate.
  intros E; inversion E; subst. cbn [fst] in H. rewrite H. unfold r0.
  rewrite update_ttl_ttl. destruct n; reflexivity.
Qed.

Lemma r_to_rdataset_ttl s x : r_to_rdataset s = Ok x -> ttl x = ttl s.
Proof. apply r_from_list_ttl. Qed.

Lemma obs_err_ok {A} (r : res A) : (match obs_err r with E _ => false | _ => true end) = true -> exists a, r = Ok a.
Proof. destruct r; cbn; try discriminate. eauto. Qed.

Lemma ttl_inv_get st h r s : ttl_inv st h -> nth_error st r = Some s -> ttl_ok s (hget h r).
Proof. intros H E. unfold hget. eapply Forall2_nth; eassumption. Qed.

Lemma ttl_inv_set st h r s hs :
  ttl_inv st h -> ttl_ok s hs -> ttl_inv (set_nth st r s) (set_nth h r hs).
Proof. intros. apply Forall2_set_nth; assumption. Qed.

Lemma ttl_inv_set_l st h r s s' :
  ttl_inv st h -> nth_error st r = Some s -> ttl s' = ttl s -> ttl_inv (set_nth st r s') h.
Proof.
  intros H E Et. apply Forall2_set_nth_l; [exact H|].
  intros y Hy. pose proof (ttl_inv_get st h r s H E) as Hok.
  unfold hget in Hok. rewrite (nth_error_nth h r y [] Hy) in Hok.
  eapply ttl_ok_fields; eassumption.
Qed.

Lemma ttl_inv_assign st h d s hs st' :
  ttl_inv st h -> ttl_ok s hs -> assign st d s = Some st' ->
  exists h', assign h d hs = Some h' /\ ttl_inv st' h'.
Proof. intros. eapply Forall2_assign; eassumption. Qed.

Ltac t_assign H :=
  match goal with
  | E : assign ?st ?d ?s = Some ?st' |- context [assign ?h ?d ?hs] =>
      let h' := fresh "h'" in let E' := fresh "E'" in let I := fresh "I" in
      destruct (ttl_inv_assign st h d s hs st' H) as (h' & E' & I); [|exact E|rewrite E']
  end.

(* one step of the machine together with its ghost keeps the invariant *)
Theorem rstep_ttl st h op :
  ttl_inv st h -> ttl_inv (fst (rstep st op)) (gstep st h op).
Proof.
  intros H. destruct op; cbn [rstep gstep fst snd].
  - (* RNew *)
    destruct (assign st d _) as [st'|] eqn:E; cbn [fst snd].
    + t_assign H; [split; [discriminate|reflexivity]|exact I].
    + destruct (assign h d [t0]); exact H.
  - (* RNewRR *)
    destruct (assign st d _) as [st'|] eqn:E; cbn [fst snd].
    + t_assign H; [split; [discriminate|reflexivity]|exact I].
    + destruct (assign h d [0]); exact H.
  - (* RImm *)
    destruct (nth_error st r) as [s|] eqn:Es; cbn [fst snd].
    + destruct (assign st d (rimm s)) as [st'|] eqn:E; cbn [fst snd].
      * t_assign H; [eapply ttl_ok_fields; [|eapply ttl_inv_get; eassumption]; reflexivity|exact I].
      * destruct (assign h d (hget h r)); exact H.
    + destruct (assign h d (hget h r)); exact H.
  - (* RToRdataset *)
    destruct (nth_error st r) as [s|] eqn:Es; cbn [fst snd].
    + destruct (kd s); cbn [fst snd]; try (destruct (assign h d (hget h r)); exact H).
      destruct (r_to_rdataset s) as [x| |] eqn:Er; cbn [fst snd];
        try (destruct (assign h d (hget h r)); exact H).
      destruct (assign st d x) as [st'|] eqn:E; cbn [fst snd].
      * t_assign H; [eapply ttl_ok_fields; [|eapply ttl_inv_get; eassumption];
                     eapply r_to_rdataset_ttl; eassumption|exact I].
      * destruct (assign h d (hget h r)); exact H.
    + destruct (assign h d (hget h r)); exact H.
  - (* RFromList *)
    destruct (r_from_list n t xs) as [x| |] eqn:Er; cbn [fst snd];
      try (destruct (assign h d [t]); exact H).
    destruct (assign st d x) as [st'|] eqn:E; cbn [fst snd].
    + t_assign H; [split; [discriminate|]; cbn; eapply r_from_list_ttl; eassumption|exact I].
    + destruct (assign h d [t]); exact H.
  - (* RAdd *)
    destruct (nth_error st r) as [s|] eqn:Es; cbn [fst]; [|destruct ottl; exact H].
    unfold is_mutable. destruct (kd s) eqn:Ek; cbn [fst andb]; try (destruct ottl; exact H).
    + unfold upd. cbn [fst].
      destruct ottl as [t|].
      * destruct ((cls s =? rcls x) && (typ s =? rtyp x)) eqn:Ec.
        -- apply ttl_inv_set; [exact H|].
           pose proof (ttl_ok_merge1 s (hget h r) t (ttl_inv_get st h r s H Es)) as Hm.
           eapply ttl_ok_fields; [|exact Hm]. rewrite radd_ttl, Ec. reflexivity.
        -- eapply ttl_inv_set_l; [exact H|exact Es|]. rewrite radd_ttl, Ec. reflexivity.
      * eapply ttl_inv_set_l; [exact H|exact Es|]. apply radd_none_ttl.
    + unfold upd. cbn [fst].
      destruct ottl as [t|].
      * destruct ((cls s =? rcls x) && (typ s =? rtyp x)) eqn:Ec.
        -- apply ttl_inv_set; [exact H|].
           pose proof (ttl_ok_merge1 s (hget h r) t (ttl_inv_get st h r s H Es)) as Hm.
           eapply ttl_ok_fields; [|exact Hm]. rewrite radd_ttl, Ec. reflexivity.
        -- eapply ttl_inv_set_l; [exact H|exact Es|]. rewrite radd_ttl, Ec. reflexivity.
      * eapply ttl_inv_set_l; [exact H|exact Es|]. apply radd_none_ttl.
  - (* RUpdateTtl *)
    destruct (nth_error st r) as [s|] eqn:Es; cbn [fst]; [|exact H].
    unfold is_mutable. destruct (kd s); cbn [fst]; try exact H;
      (apply ttl_inv_set; [exact H|]; apply ttl_ok_merge1; eapply ttl_inv_get; eassumption).
  - (* RUpdateTtlText *)
    destruct (nth_error st r) as [x|] eqn:Es; cbn [fst]; [|exact H].
    unfold is_mutable. destruct (kd x); cbn [fst];
      destruct (TokM.ttl_from_text s) as [t| |]; cbn [fst]; try exact H;
      (apply ttl_inv_set; [exact H|]; apply ttl_ok_merge1; eapply ttl_inv_get; eassumption).
  - (* RAddText *)
    destruct (nth_error st r) as [s0|] eqn:Es; cbn [fst]; [|exact H].
    unfold is_mutable. destruct (kd s0) eqn:Ek; cbn [fst andb];
      try (destruct (TokM.ttl_from_text s); exact H).
    + destruct ((cls s0 =? rcls x) && (typ s0 =? rtyp x)) eqn:Ec.
      * apply andb_true_iff in Ec as [E1 E2]. rewrite E1, E2. cbn [negb orb].
        destruct (TokM.ttl_from_text s) as [t| |]; cbn [fst]; try exact H.
        unfold upd. cbn [fst]. apply ttl_inv_set; [exact H|].
        pose proof (ttl_ok_merge1 s0 (hget h r) t (ttl_inv_get st h r s0 H Es)) as Hm.
        eapply ttl_ok_fields; [|exact Hm]. rewrite radd_ttl, E1, E2. reflexivity.
      * assert (Hn : negb (cls s0 =? rcls x) || negb (typ s0 =? rtyp x) = true).
        { destruct (cls s0 =? rcls x), (typ s0 =? rtyp x); cbn in *; congruence. }
        rewrite Hn. cbn [fst]. destruct (TokM.ttl_from_text s); exact H.
    + destruct ((cls s0 =? rcls x) && (typ s0 =? rtyp x)) eqn:Ec.
      * apply andb_true_iff in Ec as [E1 E2]. rewrite E1, E2. cbn [negb orb].
        destruct (TokM.ttl_from_text s) as [t| |]; cbn [fst]; try exact H.
        unfold upd. cbn [fst]. apply ttl_inv_set; [exact H|].
        pose proof (ttl_ok_merge1 s0 (hget h r) t (ttl_inv_get st h r s0 H Es)) as Hm.
        eapply ttl_ok_fields; [|exact Hm]. rewrite radd_ttl, E1, E2. reflexivity.
      * assert (Hn : negb (cls s0 =? rcls x) || negb (typ s0 =? rtyp x) = true).
        { destruct (cls s0 =? rcls x), (typ s0 =? rtyp x); cbn in *; congruence. }
        rewrite Hn. cbn [fst]. destruct (TokM.ttl_from_text s); exact H.
  - (* RRemove *)
    destruct (nth_error st r) as [s|] eqn:Es; cbn [fst]; [|exact H].
    destruct (kd s); cbn [fst]; try exact H;
      (destruct (sremove rd_eqb x (items s)); cbn [fst]; try exact H;
       eapply ttl_inv_set_l; [exact H|exact Es|reflexivity]).
  - (* RDiscard *)
    destruct (nth_error st r) as [s|] eqn:Es; cbn [fst]; [|exact H].
    destruct (kd s); cbn [fst]; try exact H;
      (eapply ttl_inv_set_l; [exact H|exact Es|reflexivity]).
  - (* RPop *)
    destruct (nth_error st r) as [s|] eqn:Es; cbn [fst]; [|exact H].
    destruct (kd s); cbn [fst]; try exact H;
      (destruct (spop (items s)) as [[y l]| |]; cbn [fst]; try exact H;
       eapply ttl_inv_set_l; [exact H|exact Es|reflexivity]).
  - (* RClear *)
    destruct (nth_error st r) as [s|] eqn:Es; cbn [fst]; [|exact H].
    destruct (kd s); cbn [fst]; try exact H;
      (eapply ttl_inv_set_l; [exact H|exact Es|reflexivity]).
  - (* RCopy *)
    destruct (nth_error st r) as [s|] eqn:Es; cbn [fst snd].
    + destruct (assign st d (r_copy s)) as [st'|] eqn:E; cbn [fst snd].
      * t_assign H; [eapply ttl_ok_fields; [|eapply ttl_inv_get; eassumption];
                     unfold r_copy, rclone; destruct (kd s); reflexivity|exact I].
      * destruct (assign h d (hget h r)); exact H.
    + destruct (assign h d (hget h r)); exact H.
  - (* RInpl *)
    destruct (nth_error st r) as [s|] eqn:Es; cbn [fst]; [|exact H].
    destruct (nth_error st o) as [os|] eqn:Eo; cbn [fst]; [|exact H].
    unfold upd. cbn [fst].
    assert (Hsame : Nat.eqb r o = true -> os = s).
    { intros E. apply Nat.eqb_eq in E. subst. congruence. }
    unfold r_inplace, is_mutable, inplace_merges.
    destruct (kd s) eqn:Ek; cbn [fst andb].
    + (* KRds *)
      destruct (inplace_alg w) as [a|].
      * destruct (alg_merges a && negb (Nat.eqb r o)) eqn:Em.
        -- apply ttl_inv_set; [exact H|].
           eapply ttl_ok_fields; [|apply (ttl_ok_mergeh s (hget h r) os (hget h o));
                                    eapply ttl_inv_get; eassumption].
           rewrite ralg_ttl by exact Hsame. rewrite Em. reflexivity.
        -- eapply ttl_inv_set_l; [exact H|exact Es|].
           rewrite ralg_ttl by exact Hsame. rewrite Em. reflexivity.
      * cbn [andb]. destruct (negb (Nat.eqb r o)) eqn:Em.
        -- apply ttl_inv_set; [exact H|].
           eapply ttl_ok_fields; [|apply (ttl_ok_mergeh s (hget h r) os (hget h o));
                                    eapply ttl_inv_get; eassumption].
           rewrite r_update_ttl by exact Hsame. rewrite Em. reflexivity.
        -- eapply ttl_inv_set_l; [exact H|exact Es|].
           rewrite r_update_ttl by exact Hsame. rewrite Em. reflexivity.
    + (* KImm *) rewrite (set_nth_id st r s Es). exact H.
    + (* KRR *)
      destruct (inplace_alg w) as [a|].
      * destruct (alg_merges a && negb (Nat.eqb r o)) eqn:Em.
        -- apply ttl_inv_set; [exact H|].
           eapply ttl_ok_fields; [|apply (ttl_ok_mergeh s (hget h r) os (hget h o));
                                    eapply ttl_inv_get; eassumption].
           rewrite ralg_ttl by exact Hsame. rewrite Em. reflexivity.
        -- eapply ttl_inv_set_l; [exact H|exact Es|].
           rewrite ralg_ttl by exact Hsame. rewrite Em. reflexivity.
      * cbn [andb]. destruct (negb (Nat.eqb r o)) eqn:Em.
        -- apply ttl_inv_set; [exact H|].
           eapply ttl_ok_fields; [|apply (ttl_ok_mergeh s (hget h r) os (hget h o));
                                    eapply ttl_inv_get; eassumption].
           rewrite r_update_ttl by exact Hsame. rewrite Em. reflexivity.
        -- eapply ttl_inv_set_l; [exact H|exact Es|].
           rewrite r_update_ttl by exact Hsame. rewrite Em. reflexivity.
  - (* RFunc *)
    destruct (nth_error st r) as [s|] eqn:Es; cbn [fst snd]; [|exact H].
    destruct (nth_error st o) as [os|] eqn:Eo; cbn [fst snd].
    2:{ destruct (assign h d _); exact H. }
    destruct (r_func w s os) as [x| |] eqn:Ef; cbn [fst snd];
      try (destruct (assign h d _); exact H).
    destruct (assign st d x) as [st'|] eqn:E; cbn [fst snd].
    2:{ destruct (assign h d _); exact H. }
    t_assign H; [|exact I].
    pose proof (r_func_ttl w s os x Ef) as Ht.
    destruct (alg_merges (func_alg w)).
    + eapply ttl_ok_fields; [|apply (ttl_ok_mergeh s (hget h r) os (hget h o));
                               eapply ttl_inv_get; eassumption]. exact Ht.
    + eapply ttl_ok_fields; [|eapply ttl_inv_get; eassumption]. exact Ht.
  - destruct (nth_error st r), (nth_error st o); exact H.
  - destruct (nth_error st r); exact H.
  - destruct (nth_error st r) as [s|]; [destruct (kd s)|]; exact H.
  - destruct (nth_error st r); exact H.
  - destruct (nth_error st r); exact H.
  - destruct (nth_error st r); exact H.
  - destruct (nth_error st r) as [s|]; [destruct (sget (items s) i)|]; exact H.
  - (* RDelItem *)
    destruct (nth_error st r) as [s|] eqn:Es; cbn [fst]; [|exact H].
    destruct (kd s); cbn [fst]; try exact H;
      (destruct (sdelitem rd_eqb (items s) i); cbn [fst]; try exact H;
       eapply ttl_inv_set_l; [exact H|exact Es|reflexivity]).
Qed.

(* run the machine with its ghost *)
Fixpoint rexec_g (st : list rds) (h : list (list Z)) (ops : list rop) : list rds * list (list Z) :=
  match ops with
  | [] => (st, h)
  | op :: r => rexec_g (fst (rstep st op)) (gstep st h op) r
  end.

Lemma rexec_g_fst ops : forall st h, fst (rexec_g st h ops) = rexec st ops.
Proof. induction ops as [|op ops IH]; intros st h; cbn; [reflexivity|apply IH]. Qed.

(* for every operation sequence: the TTL of every rdataset is the minimum of the TTLs merged
   into it since it was last empty *)
Theorem ttl_is_min_all ops :
  forall st h, ttl_inv st h -> ttl_inv (rexec st ops) (snd (rexec_g st h ops)).
Proof.
  induction ops as [|op ops IH]; intros st h H; cbn; [exact H|].
  apply IH, rstep_ttl, H.
Qed.

Corollary ttl_is_min_from_start ops r s :
  nth_error (rexec [] ops) r = Some s ->
  let hs := hget (snd (rexec_g [] [] ops)) r in hs <> [] /\ ttl s = hmin hs.
Proof.
  intros E. pose proof (ttl_is_min_all ops [] [] (Forall2_nil _)) as H.
  eapply ttl_inv_get; eassumption.
Qed.

(* the merged values are literals of the operation sequence: the TTL never comes from nowhere *)
Definition op_literals (op : rop) : list Z :=
  match op with
  | RNew _ _ _ _ t0 => [t0]
  | RNewRR _ _ _ _ _ _ => [0]
  | RFromList _ _ t _ => [t]
  | RAdd _ _ (Some t) => [t]
  | RUpdateTtl _ t => [t]
  | RUpdateTtlText _ txt | RAddText _ _ txt =>
      match TokM.ttl_from_text txt with Ok t => [t] | _ => [] end
  | _ => []
  end.

Definition hist_from (lits : list Z) (h : list (list Z)) : Prop :=
  Forall (fun hs => forall t, In t hs -> In t lits) h.

Lemma hist_from_mono l l' h : (forall t, In t l -> In t l') -> hist_from l h -> hist_from l' h.
Proof. intros Hl H. eapply Forall_impl; [|exact H]. cbn. intros hs Hh t Ht. auto. Qed.

Lemma hist_get lits h r t : hist_from lits h -> In t (hget h r) -> In t lits.
Proof.
  intros H Ht. unfold hget in Ht. destruct (nth_error h r) as [hs|] eqn:E.
  - rewrite (nth_error_nth h r hs [] E) in Ht. unfold hist_from in H. rewrite Forall_forall in H.
    eapply H; [eapply nth_error_In, E|exact Ht].
  - rewrite nth_overflow in Ht by (apply nth_error_None, E). contradiction.
Qed.

Lemma hist_assign lits h d hs h' :
  hist_from lits h -> (forall t, In t hs -> In t lits) -> assign h d hs = Some h' -> hist_from lits h'.
Proof. intros H Hs E. eapply Forall_assign; [exact H|exact Hs|exact E]. Qed.

Lemma gstep_literals st h op lits :
  hist_from lits h -> hist_from (lits ++ op_literals op) (gstep st h op).
Proof.
  intros H0.
  assert (H : hist_from (lits ++ op_literals op) h)
    by (eapply hist_from_mono; [|exact H0]; intros t Ht; apply in_app_iff; auto).
  assert (Hg : forall r t, In t (hget h r) -> In t (lits ++ op_literals op))
    by (intros r t Ht; eapply hist_get; eassumption).
  destruct op; cbn [gstep]; try exact H;
    repeat match goal with
           | |- context [match ?x with _ => _ end] => destruct x eqn:?
           end; try exact H;
    try (eapply hist_assign; [exact H| |eassumption]);
    try (apply Forall_set_nth; [exact H|]);
    cbn [op_literals]; repeat match goal with E : TokM.ttl_from_text _ = _ |- _ => rewrite E; clear E end;
    unfold merge1, mergeh; intros tq Ht;
    repeat match goal with
           | Ht : In _ (if ?c then _ else _) |- _ => destruct c
           | Ht : In _ (_ ++ _) |- _ => apply in_app_iff in Ht; destruct Ht
           | Ht : In _ (_ :: _) |- _ => destruct Ht as [<-|Ht]
           | Ht : In _ [] |- _ => contradiction
           end;
    try (apply in_app_iff; right; left; reflexivity);
    try (eapply Hg; eassumption);
    try (apply in_app_iff; left; eapply hist_get; [exact H0|eassumption]).
Qed.

Theorem ttl_literals ops : forall st h lits,
  hist_from lits h ->
  hist_from (lits ++ flat_map op_literals ops) (snd (rexec_g st h ops)).
Proof.
  induction ops as [|op ops IH]; intros st h lits H; cbn.
  - rewrite app_nil_r. exact H.
  - rewrite app_assoc. apply IH, gstep_literals, H.
Qed.

(* the headline: after any operation sequence from the empty machine, the TTL of every
   rdataset is the minimum of a non-empty list of TTL literals of that sequence - the ones
   merged into it (directly or through other sets) since it was last empty *)
Theorem ttl_is_min_of_merged ops r s :
  nth_error (rexec [] ops) r = Some s ->
  exists hs, hs = hget (snd (rexec_g [] [] ops)) r /\ hs <> [] /\ ttl s = hmin hs /\
             forall t, In t hs -> In t (flat_map op_literals ops).
Proof.
  intros E. eexists. split; [reflexivity|].
  destruct (ttl_is_min_from_start ops r s E) as [H1 H2].
  split; [exact H1|]. split; [exact H2|].
  intros t Ht. eapply (hist_get _ _ r t (ttl_literals ops [] [] [] (Forall_nil _))), Ht.
Qed.

(* ---------- the same frame property for the dns.set.Set machine ---------- *)

Definition starget (op : sop) : option nat :=
  match op with
  | SNew d _ | SCopy d _ | SFunc _ d _ _ => Some d
  | SAdd r _ | SRemove r _ | SDiscard r _ | SPop r | SClear r | SInpl _ r _ | SUpdateList r _
  | SDelItem r _ | SDelSlice r _ _ _ => Some r
  | SPred _ _ _ | SLen _ | SIter _ | SContains _ _ | SGet _ _ | SGetSlice _ _ _ _ => None
  end.

Theorem sstep_frame st op r :
  starget op <> Some r -> nth_error (fst (sstep st op)) r = nth_error st r.
Proof.
  intros Ht.
  destruct op; cbn [sstep starget] in *; unfold bad;
    repeat dm; cbn [fst]; try reflexivity;
    try (apply nth_set_nth_other; congruence);
    try (eapply nth_assign_other; [eassumption|congruence]).
Qed.
