(* Shared definitions: observation values exchanged with the correspondence harness,
   the result monad of the models, octet helpers.  Definitions only. *)
From Coq Require Export ZArith List Bool Lia Arith.
Export ListNotations.
Open Scope Z_scope.

#[global] Arguments Z.add : simpl never.
#[global] Arguments Z.sub : simpl never.
#[global] Arguments Z.mul : simpl never.
#[global] Arguments Z.div : simpl never.
#[global] Arguments Z.modulo : simpl never.

(* JSON-like values: the harness writes inputs and implementation outputs in this
   type; every model exports  run : obs -> obs. *)
Inductive obs :=
| I (z : Z)
| B (b : list Z)
| L (l : list obs)
| E (code : Z)
| N.

Fixpoint zlist_eqb (a b : list Z) : bool :=
  match a, b with
  | [], [] => true
  | x :: a', y :: b' => (x =? y) && zlist_eqb a' b'
  | _, _ => false
  end.

Fixpoint obs_eqb (a b : obs) {struct a} : bool :=
  match a, b with
  | I x, I y => x =? y
  | B x, B y => zlist_eqb x y
  | E x, E y => x =? y
  | N, N => true
  | L x, L y =>
      (fix go (x y : list obs) {struct x} : bool :=
         match x, y with
         | [], [] => true
         | u :: x', v :: y' => obs_eqb u v && go x' y'
         | _, _ => false
         end) x y
  | _, _ => false
  end.

(* indices of the cases on which model and implementation differ *)
Fixpoint bad_idx (run : obs -> obs) (i : nat) (cs : list (obs * obs)) : list nat :=
  match cs with
  | [] => []
  | (c, e) :: r => if obs_eqb (run c) e then bad_idx run (S i) r else i :: bad_idx run (S i) r
  end.

Definition ob (b : bool) : obs := I (if b then 1 else 0).

(* Result of a modelled Python function: a value, an exception of the library's own
   hierarchy (Lib), or a Python-level exception (Internal). Codes are per model. *)
Inductive res (A : Type) :=
| Ok (a : A)
| Lib (e : Z)
| Internal (e : Z).
Arguments Ok {A}. Arguments Lib {A}. Arguments Internal {A}.

Definition bind {A B} (r : res A) (f : A -> res B) : res B :=
  match r with Ok a => f a | Lib e => Lib e | Internal e => Internal e end.
Notation "'do' x <- r ; k" := (bind r (fun x => k)) (at level 200, x pattern, r at level 100, k at level 200).

Definition is_byte (b : Z) : bool := (0 <=? b) && (b <? 256).
Definition all_bytes (l : list Z) : bool := forallb is_byte l.

(* ASCII lower-casing of one octet / a label, as bytes.lower() *)
Definition lower (c : Z) : Z := if (65 <=? c) && (c <=? 90) then c + 32 else c.
Definition lower_l (l : list Z) : list Z := map lower l.

(* three-way comparison of octet strings, Python bytes ordering *)
Fixpoint cmp_bytes (a b : list Z) : comparison :=
  match a, b with
  | [], [] => Eq
  | [], _ :: _ => Lt
  | _ :: _, [] => Gt
  | x :: a', y :: b' =>
      match x ?= y with
      | Eq => cmp_bytes a' b'
      | c => c
      end
  end.

Definition zlen {A} (l : list A) : Z := Z.of_nat (length l).
